#!/usr/bin/env python3
"""MANIFEST.setup_cmd: warm the content-keyed build cache (library + every engine, every configuration
a registered check needs). Purely local: compilers on disk, sources in /repo and /verif."""
import os
import subprocess
import sys

VERIF = os.path.dirname(os.path.dirname(os.path.abspath(__file__)))
TARGETS = [("asan", "enc"), ("asan", "dec"), ("asan", "wire"), ("asan", "obj"), ("asan", "status"),
           ("sched", "sched"), ("tsan", "tsanrun"), ("plainA", "uninit"), ("plainB", "uninit")]
rc = 0
for cfg, eng in TARGETS:
    src = {"tsanrun": "sched"}.get(eng, eng)
    if not os.path.exists(os.path.join(VERIF, "engines", src + ".cpp")):
        continue
    r = subprocess.run([sys.executable, os.path.join(VERIF, "mc", "build.py"), cfg, eng], stdout=subprocess.PIPE, text=True)
    print("%-7s %-8s %s" % (cfg, eng, r.stdout.strip() if r.returncode == 0 else "BUILD FAILED"))
    rc = rc or r.returncode
sys.exit(rc)
