"""edit(path, old, new): replace exactly one occurrence, preserving the file's CRLF/LF convention."""
def edit(path, old, new, count=1):
    raw = open(path, 'rb').read()
    crlf = b'\r\n' in raw
    s = raw.decode().replace('\r\n', '\n')
    assert s.count(old) == count, "%s: snippet occurs %d times (expected %d)" % (path, s.count(old), count)
    s = s.replace(old, new)
    if crlf:
        s = s.replace('\n', '\r\n')
    open(path, 'wb').write(s.encode())
