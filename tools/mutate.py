#!/usr/bin/env python3
"""Systematic single-point mutation campaign (meta-evaluation of the checks, not part of any check).

For every mutation point of the selected library files: apply the mutant in a scratch worktree, build the
project with its own flags, run the repository's unit tests; if they still pass ("the suite cannot see it"),
run the quick checks that are relevant for the file (cheapest first, stop at the first one that fires) via
VERIF_REPO / VERIF_BUILD / VERIF_OUT redirection.  Results go to a TSV; survivors need manual triage
(equivalent mutants vs. detection gaps).

usage: mutate.py <out.tsv> [file-substring ...]
"""
import os
import re
import subprocess
import sys
import time

REPO = "/repo"
# MUT_SHARD=i/n: this process handles every n-th still untested mutant (own worktree, build cache and output file
# <out>.<i>), so that n processes can share the campaign; merge the parts with `cat`.
SHARD_I, SHARD_N = (int(x) for x in os.environ.get("MUT_SHARD", "0/1").split("/"))
WT = "/tmp/mut/wt%d" % SHARD_I
VB = "/tmp/mut/vbuild%d" % SHARD_I
VO = "/tmp/mut/vout%d" % SHARD_I

CHECKS = {
    "encoder": ["C09", "C10", "C08", "C07", "C01"],
    "decoder": ["C06", "C05", "C04", "C01", "C02", "C17", "C18"],
    "packet": ["C14", "C12", "C04", "C03", "C01", "C16", "C11", "C02"],
    "payload.": ["C14", "C13", "C03", "C01", "C04"],
    "payload_type": ["C04", "C11", "C14", "C01"],
    "message_header": ["C12", "C04", "C01", "C11"],
    "cmp_header": ["C12", "C04", "C01", "C09", "C11"],
    "common.h": ["C12", "C04", "C15"],
    "can_": ["C13", "C12", "C03", "C04", "C11"],
    "lin_payload": ["C13", "C12", "C03", "C04", "C11"],
    "ethernet_payload": ["C13", "C12", "C03", "C04", "C11"],
    "analog_payload": ["C13", "C12", "C03", "C04", "C11"],
    "capture_module_payload": ["C13", "C12", "C03", "C04", "C11"],
    "interface_payload": ["C13", "C12", "C03", "C04", "C16", "C11"],
    "status": ["C16"],
    "tecmp_": ["C15", "C12", "C02", "C14", "C11"],
}

OPS = [
    (r"<=", "<"), (r"(?<![<\-])<(?![<=])", "<="), (r">=", ">"), (r"(?<![>\-])>(?![>=])", ">="),
    (r"==", "!="), (r"!=", "=="), (r"&&", "||"), (r"\|\|", "&&"),
    (r" \+ ", " - "), (r" - ", " + "), (r"\+= ", "-= "), (r"-= ", "+= "),
    (r"\btrue\b", "false"), (r"\bfalse\b", "true"),
    (r" \| ", " & "), (r" & ", " | "), (r"<<", ">>"),
]


def relevant(path):
    base = os.path.basename(path)
    if base.startswith("tecmp_"):
        return CHECKS["tecmp_"]
    if base in ("payload.cpp", "payload.h"):
        return CHECKS["payload."]
    for k, v in CHECKS.items():
        if k != "payload." and k in base:
            return v
    return []


def mutation_points(path):
    """yields (line number, description, new line text)"""
    raw = open(path, "rb").read().decode()
    lines = raw.split("\n")
    in_block = False
    in_unit_enum = False
    for i, line in enumerate(lines):
        code = line.rstrip("\r")
        s = code.strip()
        # the ~100 enumerators of AnalogPayload::Unit are a code table no property constrains (fields are compared
        # relationally): 35 of them were tried, all survive for that reason; the rest is skipped
        if "enum class Unit" in s:
            in_unit_enum = True
        if in_unit_enum:
            if s.startswith("};"):
                in_unit_enum = False
            continue
        if in_block:
            if "*/" in s:
                in_block = False
            continue
        if s.startswith("/*"):
            if "*/" not in s:
                in_block = True
            continue
        if not s or s.startswith("//") or s.startswith("#") or s.startswith("*"):
            continue
        if "static_assert" in s or s.startswith("using ") or s.startswith("template") or s.startswith("enum") or "operator" in s and "(" in s and s.endswith(")"):
            continue
        body = code.split("//")[0]
        # operators
        for pat, rep in OPS:
            for m in re.finditer(pat, body):
                # skip template brackets / includes / stream operators heuristically
                seg = body[max(0, m.start() - 28):m.end() + 12]
                if pat in (r"(?<![<\-])<(?![<=])", r"(?<![>\-])>(?![>=])") and re.search(r"(static_cast|reinterpret_cast|const_cast|std::\w+|vector|shared_ptr|unique_ptr|function|template|numeric_limits|make_\w+|getHeader|Payload|uint\d+_t)\s*[<>]|[<>]\s*(\(|::|;|,|\)|>|\{)|<\w+(::\w+)*[ \*&]*>", seg):
                    continue
                if pat == r"<<" and ("ss <<" in body or "<< \"" in body or "cout" in body):
                    continue
                new = body[:m.start()] + rep + body[m.end():]
                yield i, "%s -> %s @col%d" % (m.group(0), rep, m.start()), new + ("\r" if line.endswith("\r") else "")
        # numeric literals (decimal) +1 / -1
        for m in re.finditer(r"(?<![\w.x])(\d{1,5})(?![\w.xX])", body):
            v = int(m.group(1))
            for nv in (v + 1, v - 1):
                if nv < 0:
                    continue
                new = body[:m.start()] + str(nv) + body[m.end():]
                yield i, "%d -> %d @col%d" % (v, nv, m.start()), new + ("\r" if line.endswith("\r") else "")
        # hex masks: flip lowest set bit
        for m in re.finditer(r"0x([0-9A-Fa-f]+)", body):
            v = int(m.group(1), 16)
            if v == 0:
                continue
            nv = v & (v - 1) if v & (v - 1) else v << 1
            new = body[:m.start()] + ("0x%0*X" % (len(m.group(1)), nv)) + body[m.end():]
            yield i, "0x%X -> 0x%X @col%d" % (v, nv, m.start()), new + ("\r" if line.endswith("\r") else "")
        # statement deletion (calls / assignments that are whole-line statements)
        if s.endswith(";") and not s.startswith("return") and not s.startswith("break") and "(" in s and not re.match(r"^(const |auto |std::|uint|int |size_t|bool |[A-Z]\w+ \w+[;=(]|[A-Z]\w+::\w+ \w+)", s) \
                and not s.startswith("if") and not s.startswith("for") and not s.startswith("while") and not s.startswith("case") and not s.startswith("}"):
            indent = code[:len(code) - len(code.lstrip())]
            yield i, "delete statement", indent + ";" + ("\r" if line.endswith("\r") else "")
        if re.match(r"^\w[\w\[\]\.\->]* (\+=|-=|=|\|=|&=) .*;$", s) and "(" not in s.split("=")[0]:
            indent = code[:len(code) - len(code.lstrip())]
            yield i, "delete assignment", indent + ";" + ("\r" if line.endswith("\r") else "")


def sh(cmd, timeout=3600, env=None):
    r = subprocess.run(["bash", "-o", "pipefail", "-c", cmd], stdout=subprocess.PIPE, stderr=subprocess.STDOUT, text=True, timeout=timeout, env=env, errors="replace")
    return r.returncode, r.stdout


def main():
    out = sys.argv[1]
    filt = sys.argv[2:]
    if not os.path.isdir(WT):
        os.makedirs("/tmp/mut", exist_ok=True)
        sh("git -C %s worktree add -q --detach %s HEAD" % (REPO, WT))
        sh("cd %s && cmake -G Ninja -B _build -DFETCHCONTENT_FULLY_DISCONNECTED=ON" % WT)
    sh("cd %s && git checkout -q -- . && cmake --build _build" % WT)
    files = sorted([os.path.join(WT, "src", f) for f in os.listdir(os.path.join(WT, "src")) if f.endswith(".cpp")] +
                   [os.path.join(WT, "include", "asam_cmp", f) for f in os.listdir(os.path.join(WT, "include", "asam_cmp")) if f.endswith(".h")])
    if filt:
        files = [f for f in files if any(x in f for x in filt)]
    prio = ["decoder.cpp", "encoder.cpp", "packet.cpp", "payload.cpp", "status.cpp", "device_status.cpp", "interface_status.cpp", "tecmp_decoder.cpp", "tecmp_converter.cpp",
            "interface_payload.cpp", "capture_module_payload.cpp", "lin_payload.cpp", "ethernet_payload.cpp", "analog_payload.cpp", "can_payload_base.cpp"]
    files.sort(key=lambda f: (prio.index(os.path.basename(f)) if os.path.basename(f) in prio else 99, f))
    done = set()
    if os.path.exists(out):
        for l in open(out):
            p = l.split("\t")
            if len(p) > 3:
                done.add((p[0], p[1], p[2]))
    env = dict(os.environ)
    env.update(VERIF_REPO=WT, VERIF_BUILD=VB, VERIF_OUT=VO, VERIF_WORKERS=os.environ.get("MUT_WORKERS", "8"), VERIF_DEADLINE_S="120")
    counter = 0
    with open(out if SHARD_N == 1 else "%s.%d" % (out, SHARD_I), "a") as fo:
        for path in files:
            checks = relevant(path)
            if not checks:
                continue
            orig = open(path, "rb").read()
            lines = orig.decode().split("\n")
            rel = os.path.relpath(path, WT)
            for (ln, desc, newline) in mutation_points(path):
                key = (rel, str(ln + 1), desc)
                if key in done:
                    continue
                ml = list(lines)
                if ml[ln] == newline:
                    continue
                counter += 1
                if counter % SHARD_N != SHARD_I:
                    continue
                ml[ln] = newline
                open(path, "wb").write("\n".join(ml).encode())
                t0 = time.time()
                rc, o = sh("cd %s && cmake --build _build 2>&1 | tail -3" % WT, timeout=600)
                if rc != 0 or "FAILED" in o or "error" in o:
                    verdict, by = "no-build", ""
                else:
                    try:
                        rc, o = sh("cd %s && timeout 120 ./_build/bin/test_asam_cmp 2>&1 | tail -3" % WT, timeout=200)
                    except subprocess.TimeoutExpired:
                        rc, o = 1, "timeout"
                    if "PASSED" not in o or "FAILED" in o:
                        verdict, by = "killed-by-unit-tests", ""
                    else:
                        verdict, by = "SURVIVED", ""
                        for c in checks:
                            try:
                                rc, o = sh("/verif/check %s quick 2>&1 | tail -40" % c, timeout=900, env=env)
                            except subprocess.TimeoutExpired:
                                rc, o = 1, "timeout"
                            if rc != 0:
                                m = re.search(r"key=(\S+)", o)
                                verdict, by = "killed-by-check", "%s %s" % (c, m.group(1) if m else ("rc=%d" % rc))
                                break
                fo.write("%s\t%d\t%s\t%s\t%s\t%.0fs\t%s\n" % (rel, ln + 1, desc, verdict, by, time.time() - t0, lines[ln].strip()[:120]))
                fo.flush()
                open(path, "wb").write(orig)
    sh("cd %s && git checkout -q -- ." % WT)


if __name__ == "__main__":
    main()
