#!/bin/bash
# usage: tools/verify_seeded.sh <dir with patch.diff + demo.cpp> <name> [check ids...]
# Confirms in a fresh scratch worktree: patch applies, project builds with its own flags, all unit tests pass,
# demo passes on the original sources and fails with the change; then runs the quick checks against the changed tree.
# VERIF_BASE=<commit> verifies against an earlier commit of /repo (for a change that relied on a defect fixed since).
D=$1; N=$2; shift; shift
WT=/tmp/wt/verify-$N
git -C /repo worktree remove --force $WT 2>/dev/null
git -C /repo worktree add -q --detach $WT ${VERIF_BASE:-HEAD} || exit 9
cd $WT
if ! git apply $D/patch.diff; then echo "$N: PATCH DOES NOT APPLY"; git -C /repo worktree remove --force $WT; exit 1; fi
git diff --stat | tail -1
cmake -G Ninja -B _build -DFETCHCONTENT_FULLY_DISCONNECTED=ON > /dev/null 2>&1
if ! cmake --build _build > _build/log 2>&1; then echo "$N: BUILD FAILS"; tail -5 _build/log; else
  T=$(./_build/bin/test_asam_cmp 2>&1 | grep -E "^\[  (PASSED|FAILED)" | tr '\n' ' ')
  echo "$N: unit tests with change: $T"
fi
g++ -std=c++17 -pthread -I$WT/include $D/demo.cpp $WT/src/*.cpp -o /tmp/wt/demo-$N-mut 2>/tmp/wt/demo-$N.err && (timeout 300 /tmp/wt/demo-$N-mut > /tmp/wt/demo-$N-mut.out 2>&1; echo "$N: demo WITH change exit=$?")
git apply -R $D/patch.diff
g++ -std=c++17 -pthread -I$WT/include $D/demo.cpp $WT/src/*.cpp -o /tmp/wt/demo-$N-orig 2>>/tmp/wt/demo-$N.err && (timeout 300 /tmp/wt/demo-$N-orig > /tmp/wt/demo-$N-orig.out 2>&1; echo "$N: demo on ORIGINAL exit=$?")
git apply $D/patch.diff
rm -rf _build /tmp/wt/demo-$N-mut /tmp/wt/demo-$N-orig
cd /verif
tools/run_seeded.sh $WT "$@" | grep -v "violations=0"
git -C /repo worktree remove --force $WT
