#!/usr/bin/env python3
"""Regenerates /verif/MANIFEST.json from the table below and validates it against the schema."""
import json
import os
import subprocess
import sys

VERIF = os.path.dirname(os.path.dirname(os.path.abspath(__file__)))

HOOK_COMMITS = ["0a79366"]

ENGINES = [
    ("enc", "engines/enc.cpp", ["C01", "C07", "C08", "C09", "C10"],
     "exhaustive small-scope enumeration of batches x contexts on fresh real Encoder/Decoder objects; history trees over copied real Encoder objects"),
    ("dec", "engines/dec.cpp", ["C05", "C06", "C17", "C18"],
     "explicit-state exploration of the real Decoder: all interleavings (DFS over copied decoders), all fault sequences up to a bound, symbol tree + BFS merged on (model state, verifPending dump)"),
    ("wire", "engines/wire.cpp", ["C02", "C03", "C04", "C15"],
     "exhaustive enumeration of control-relevant wire fields (independent builder) x truncations x paddings x decoder pre-states under ASan/UBSan in a fork sandbox"),
    ("obj", "engines/obj.cpp", ["C11", "C12", "C13", "C14"],
     "table-driven exhaustive enumeration class x field x value x background; builder runs x prior contents; all ordered (source,target) pairs x value operations"),
    ("status", "engines/status.cpp", ["C16"],
     "operation-sequence tree over copied real Status objects + BFS merged on the full observable state, lock-step with a latest-message map"),
    ("sched", "engines/sched.cpp", ["C19"],
     "preemption-bounded exhaustive schedule exploration of real threads at compiler-inserted scheduling points (serialising scheduler) + confinement monitor + separate free-running TSan pass"),
    ("uninit", "engines/uninit.cpp", ["C20"],
     "workload enumeration x environment answers for uninitialised memory (two stack/heap fill patterns, differential) + valgrind definedness monitor"),
]

# id -> dict(level, design, text, note, technique)
CHECKS = {
    "C01": dict(level="model_checking", design="4/C01",
                text="Every batch of the stated small-scope domain (all fit/no-fit boundary lengths x message types x batch sizes 1..3 x 21 small (min,max) contexts and batch sizes 1..2 x 9 mid-size/realistic contexts, each also on an encoder that already made one of ten kinds of earlier call (seven completed ones, two aborted by an exception from the packet source, one with an empty batch), typed prototypes as singles/pairs/triples x 5 contexts x 3 encode overloads, header-field sweeps, 65535-byte extremes alone, after a type change and after a packet of the same type, frames larger than the largest message) is encoded by a real Encoder and decoded by a fresh real Decoder (frames handed over at addresses of varying alignment); also very long batches (70000 packets in one call), identical neighbouring packets, segmentation bits / segment-type attribute on single packets at every position, payloads re-typed or replaced (other length) in place after setPayload; the decoded packets are compared field by field with the inputs by harness code. Exhaustive within the bounds, no sampling.",
                note="Bounds: lengths around each boundary, one content pattern per packet; compares through public getters only; oracle code shares nothing with the library.",
                technique="bounded exhaustive enumeration of executions of the real encoder+decoder (small-scope), independent field-by-field oracle"),
    "C07": dict(level="model_checking", design="4/C07",
                text="Same enumeration as C01 plus message type 0 and payload type byte 0 as batch members, the empty batch, every batch of 1..3 packets over {zero-length data, zero-length status, small data, small status, segmenting data} that holds a zero-length payload (4 contexts, all encode overloads; one OPEN known finding: such a packet can leave a frame without any message), extra minimum sizes and packets with protocol versions of their own; every returned frame is parsed by an independent frame walker (size bounds, >=1 complete message, tiling, zero padding only up to min, every payload byte exactly once and in order).",
                note="Independent walker in ref/wire.h (no library code); generated packets never use payload-type byte 0 so padding is unambiguous.",
                technique="bounded exhaustive enumeration of encoder executions, independent frame-walker oracle"),
    "C08": dict(level="model_checking", design="4/C08",
                text="Same enumeration as C07 (incl. message type 0); the parsed frame structure must equal the layout computed by an executable specification of the segmentation/aggregation rules (greedy planner), with rule-specific diagnostics; a frame without message anywhere in the output is a layout violation (the following packet was not appended to the empty current frame).",
                note="The planner (ref/layout_rules.h) is written from the property text; frames without messages are C07's business.",
                technique="bounded exhaustive enumeration of encoder executions compared with an executable reference model of the layout rules"),
    "C09": dict(level="model_checking", design="4/C09",
                text="All histories up to depth 5 (quick) / 7 (thorough) over a 16-operation alphabet (incl. the getters as an observation between two operations) explored as a tree of copied real Encoder objects, every prefix judged against a counter/identity model; plus dedicated histories that wrap the 16-bit counter inside and across calls.",
                note="Alphabet: 2 device ids, 2 stream ids, restart, 10 (batch,context,version) triples chosen to differ in every piece of carried encoder state, two of them from another one in the version only; packets carry junk ids of their own, a zero-length payload, message type 0 and payload type byte 0 occur.",
                technique="explicit-state exploration of all operation sequences up to a depth on the real object, lock-step with a reference model"),
    "C10": dict(level="model_checking", design="4/C10",
                text="For every history up to depth 4 (quick) / 6 (thorough) and every final (batch,context,version) of a 15-element set the frames of the used real Encoder are compared byte for byte (modulo a constant counter offset) with those of a fresh Encoder with the same ids; ten further histories emit 65530 / 65533 / 32765 frames in one call so that every final straddles the counter wrap or the sign boundary, twelve contain an encode call aborted by an exception from the caller's packet source, and 54 families contain an encode call aborted at its n-th allocation for EVERY n (allocation-fault injection), alone and before / after another call, and 13 contain a call on an EMPTY batch; runs under ASan/UBSan in a fork sandbox so crashes caused by leftover state are outcomes.",
                note="Purely differential: no model involved.",
                technique="explicit-state exploration of all operation sequences up to a depth, differential oracle (used vs fresh object)"),
    "C05": dict(level="model_checking", design="4/C05",
                text="All interleavings of the frame streams of 2 and 3 endpoints (7 templates x 8 variants incl. counter wrap, zero-size segments, trailing bytes, typed payloads; later segments differ from the first in every header field; one endpoint has the default ids (0,0)) explored as a DFS that copies the real Decoder at each branch; every prefix is judged against the stream's own expectation and in lock-step with the reassembly model. A fan-out round keeps N endpoints mid-reassembly at once (N around every power of two up to 1000, thorough 10000) and completes them in three orders; a long-gap round puts N frames of other traffic (5 kinds: unsegmented, tail-lost first segments, complete messages, 40 further endpoints, endpoint-less buffers) between the segments of one message, N around every power of two up to 65537 (thorough 300000).",
                note="Bounds: <= 9 frames in total (quick) / <= 12 (thorough) for three endpoints; all template and variant pairs for two endpoints; two variants reassemble to the largest messages (65535 / 65519-65520 bytes).",
                technique="exhaustive enumeration of all interleavings (schedules of frame arrival) on copies of the real decoder, lock-step with a reference model"),
    "C06": dict(level="fault_enumeration", design="4/C06",
                text="All sequences of <= 2 (quick) / <= 3 (thorough; 4 on the wrap-crossing history) faults from {drop, duplicate, duplicate-later, swap, corrupt-version, corrupt-type} - and, in sequences of <= 2 faults, decode calls ABORTED by the failure of their n-th allocation for every n, with and without the frame being presented again - at every position of 6 base histories (and, with <= 1 fault, of a 215-frame history in which 70 complete and 70 tail-lost messages of another endpoint lie inside one message) (real encoder output at two contexts, two interleaved endpoints, a stream crossing the counter wrap, one crossing the sign boundary, two endpoints differing in the high device-id byte of which one sends zero-padded frames); every delivered packet must be byte-identical to a sent one, every complete uninterrupted message must be delivered, and the run must agree with the reassembly model (sequences with an aborted call: integrity and recovery only - the decoder may be in its state before or after the frame - under ASan).",
                note="'Random beyond the bound' of the quantifier text is deliberately not done (sampling is a different family); the completed bound is reported.",
                technique="exhaustive fault-sequence enumeration up to a bound on the real decoder"),
    "C17": dict(level="model_checking", design="4/C17",
                text="104-symbol state-relative frame alphabet over 4 endpoints (incl. zero-length last segments with a plausible-looking trail, header-plus-zero-bytes frames, truncated TECMP-like buffers, continuation segments that fit a default-constructed reassembly entry, an intermediary segment repeated verbatim, a rejected typed payload followed by a first segment in one frame, TECMP frames whose device id equals an endpoint's, a stray last segment that continues ANOTHER endpoint's open message by the numbers, well-formed status messages whose content changes: uptime high / low): unmerged tree of copied real Decoders (depth 3 quick / 4 thorough; depth 5 / 6 over a sharp 24-symbol sub-alphabet) and BFS (depth 8 / 10) merged on (model state, dump of the decoder's pending table); after every transition the set of endpoints with pending data must equal the set of open messages and buffered bytes must not exceed header + declared segment bytes received; plus the fan-out and long-gap rounds of C05 and messages whose segments add up to more than 65535 bytes (15 size lists x 4 endpoints: the last segment releases the buffer all the same).",
                note="Uses the guarded read-only hook Decoder::verifPending(); a header-only frame is modelled as carrying nothing.",
                technique="explicit-state model checking (tree + BFS with state merging) of the real decoder against a reference model; invariant checked in every state"),
    "C18": dict(level="model_checking", design="4/C18",
                text="On every path of the C05 interleaving exploration and the C17 tree/BFS the shared real Decoder is compared frame by frame with one solo real Decoder per endpoint that only sees that endpoint's frames; endpoint-less buffers (nullptr, short, TECMP) go to the shared decoder only; the fan-out, long-gap and oversize rounds with solo decoders; two-endpoint histories with a decode call aborted at its n-th allocation (every n, every frame, with / without retry, alone and with one more fault): the endpoints without aborted call must get exactly what their solo decoders get.",
                note="Purely differential; counts as in C05 + C17.",
                technique="explicit-state exploration with a differential (projection) oracle on real decoder objects"),
    "C02": dict(level="model_checking", design="4/C02",
                text="Every way the decoders' control flow can be steered is enumerated: ~140 well-formed CMP and TECMP seed frames x every truncation x every single-byte and adjacent-byte-pair corruption over boundary value sets x extensions up to 64 KiB x 4 decoder pre-states, a TECMP sweep over all 256 message types x data types x payload lengths x length bytes, all ordered pairs (thorough: triples) of a sub-corpus on one decoder, all segment-size sequences F(a) [I(b)] L(c) over a size set whose totals cross 64 KiB, the typed-payload generator of C03 as the last message of an exact-size frame and split over two segments, and very long buffers (N aggregated well-formed messages behind one frame header, N up to 300000, thorough 2000000), and histories in which one decode call is aborted by the failure of its n-th allocation (every n, every buffer) and the buffer is presented again (reassembly F [I] L [U U] over sizes {0,1,17,1000}; typed payloads of the 7 classes unsegmented and split). Each execution runs the real code under ASan/UBSan in a fork sandbox with a watchdog; input unchanged, <= len/12 packets, packets non-null with payload, and a digest of every getter, byte and typed accessor must be unchanged after the input is freed, ten more frames are decoded and the decoder is destroyed.",
                note="Not all byte strings: exhaustive over the control-relevant field space of the seeds (the decoder only copies other bytes). UBSan alignment/vptr/nonnull-attribute sub-checks are off on purpose.",
                technique="bounded exhaustive enumeration of inputs x decoder histories executed on the real code under sanitizers (fork sandbox, watchdog)"),
    "C03": dict(level="model_checking", design="4/C03",
                text="Per typed payload class every buffer length 0..header+8 (+2 larger) x 3 backgrounds x every inner length field over boundary value sets (full products; 6^5 section-length product for the capture-module class): if the class validator accepts, a payload is built from an exact-size heap copy, the copy is freed, every const accessor is called under ASan and every reported view is checked against the payload's own bytes; the same buffer also goes through a real Decoder, the TECMP generators of C15 go through the decoder with the same view oracle (converter-built packets), message-level isValidPacket => Packet constructor is swept, and the aborted-call histories of C02 (a decode call fails at its n-th allocation and is repeated) are run with the view oracle on every packet returned as valid afterwards.",
                note="View bounds are checked by harness code, raw reads by ASan redzones on exact-size allocations.",
                technique="bounded exhaustive enumeration of inputs on the real validators/accessors under ASan with an independent view-bounds oracle"),
    "C04": dict(level="model_checking", design="4/C04",
                text="Frames are built from field values by an independent builder (180 frame headers x 0/1 message, all ordered pairs of a 65-message alphabet, all triples of a 14-message sub-alphabet, every single flag bit alone per typed data class; consistent and deliberately inconsistent inner lengths, inner lengths at the byte / sign boundaries of their width, bus-error flags, prefix-ending messages), each as is, cut at every byte offset and zero-padded, on a fresh real Decoder and on three decoders with history; returned packets are compared with an independent parse using three-valued validity (must-valid / must-invalid / unconstrained).",
                note="Expected getter values are the builder's field values, so symmetric endianness/offset errors do not cancel.",
                technique="bounded exhaustive enumeration of inputs x decoder pre-states against an independent reference parser"),
    "C15": dict(level="model_checking", design="4/C15",
                text="TECMP frames from an independent builder: CAN/CAN-FD data length 0..64 (and 7 consistent lengths above 64) x arbitration ids x CRC trailers, LIN x all 256 pids, capture-module status x serials x version bytes x every value of every one-byte code of the status header, data messages of every data type 0x0000..0x01FF (short payloads x announced vendor lengths), bus status with 0..40 entries (distinct, and repeating: adjacent identical, first = last, all identical, all zero), each kind with inner lengths inconsistent with the buffer, every single bit of the data-flags and device-flags words alone, supported data messages followed by further entries (well-formed, lying, empty entry headers; header-like and zero trails: the first entry's packet is judged), and all 256 message types x data types x payload lengths x length bytes (thorough: all 65536 data types); decoded packets are compared with an independent conversion, unsupported/inconsistent messages must yield nothing.",
                note="CAN CRC values, frames with bytes after the declared payload, partial bus-status entries and status frames with data type FF00 are outside what the property fixes and are only checked for memory safety (C02).",
                technique="bounded exhaustive enumeration of inputs against an independent reference conversion"),
    "C11": dict(level="model_checking", design="4/C11",
                text="Table-driven: 24 classes, ~235 setter/getter pairs; for every field ALL values (<= 16 bits) or single bits + byte lanes + extremes + values relative to the current state (wider), from default / all-zero / all-ones / counting / semantically consistent (valid LIN parity and checksum, DLC matching the length) prior object states (payload classes also with data bytes): after set, get returns the value, every non-overlapping field's getter is unchanged and raw bytes are unchanged outside the bits an independent layout table assigns to the field; booleans additionally through set/clear sequences, every flag setter with every mask value (incl. multi-bit masks) from every prior flag state, and Packet::setPayload from every prior state (nothing or any of 23 payloads held, four of which report bus errors) x 23 new payloads, the header fields compared with what was written. Every payload class table also carries the base-class type fields (message type, raw payload type byte). Payload classes are exercised both as stand-alone objects and as the object a Packet holds after setPayload (reached through getPayload and a cast); every getter is called on the object before the write.",
                note="Wide fields are covered bit-lane-wise, which decides bit-sliced accessors (byte swaps, shifts, masks); the overlap relation (legitimate aliases) is derived from the independent layout table.",
                technique="bounded exhaustive enumeration class x field x value x prior state on the real objects"),
    "C12": dict(level="model_checking", design="4/C12",
                text="Same table, independent columns (offset, width, bit position written from the protocol layouts): API writes into default, zero, ones and counting objects must produce the hand-laid-out big-endian image, hand-laid-out images must be read back by the getters from zero/ones/counting backgrounds, reserved bits are zero in default objects, header sizes are the standard ones; Packet serialisers are compared with hand-laid-out images; the length-prefixed sections of the two status payloads are laid out by hand at 22 lengths around the byte / sign boundaries of the prefix and read through the getters; the message-header serialiser with the 23 typed payloads of the value pool (incl. payloads that report bus errors) and the flags written before / after the payload; 94 named constants (flag bits, message / payload / data types) are compared with the protocol tables.",
                note="The order of the two TECMP temperature bytes could not be cross-checked and is listed as an assumption in the evidence.",
                technique="bounded exhaustive enumeration class x field x value against an independent layout table"),
    "C13": dict(level="model_checking", design="4/C13",
                text="Every builder (CAN/CAN-FD all lengths 0..255 x 4 header variants incl. the RTR/RRS bit set first, LIN all lengths 0..255, Ethernet/analog boundary lengths to 65529, capture-module 5^4 string combinations (empty strings also as null string_views) x vendor lengths and each section alone at 17 boundary lengths, interface stream-id counts x vendor lengths) after each kind of prior state (earlier setData with shorter / longer / same-length data or with the same TOTAL size and moved section boundaries, or an object constructed from a raw image with trailing bytes; each with and without every getter being called between the two builder calls; stand-alone objects and objects held inside a Packet; the LIN builder also with the correct classic / enhanced checksum of the data held before; the builder call under test aborted by the failure of its n-th allocation and repeated; builder objects that were moved from and are used again; prior contents much longer than the new data; capture-module strings whose content looks like padding or formatting); checked: getters, preserved header fields, independent wire image incl. NUL termination and even padding, DLC table, own validity check, real Decoder, raw bytes equal to those of a fresh object with the same final content.",
                note="DLC is only constrained for representable lengths.",
                technique="bounded exhaustive enumeration of builder inputs x prior object contents with independent layout oracle and fresh-object differential"),
    "C14": dict(level="model_checking", design="4/C14",
                text="All ordered (source, target) pairs of a 31-packet pool (payload-less, zero-length payloads, equal-looking, one member per single-field difference, typed, decoder-produced, decoder-produced and edited in place into a rejected state) x copy/move construction and assignment, self assignments, all two-assignment sequences, all histories of 3 (thorough 4) value operations (copy-assign / move-assign / swap from every member, self assignments, round trip through a copy-constructed temporary) on every target of a 12-member sharp sub-pool and of 2 (3) operations on the whole pool with the target observed and compared after every step, equality laws on all pairs, equality through the concrete payload classes incl. analog payloads with NaN / infinities / -0 in each float field; copy construction / assignment aborted by the failure of its n-th allocation (every n) and repeated; the same for 23 Payload and 10 TECMP::Payload objects; observation through all getters under ASan in forked workers.",
                note="Equality must agree with field-by-field comparison only for non-empty payloads (as the property states).",
                technique="exhaustive enumeration of object pairs x value operations (2-step histories) on the real classes"),
    "C16": dict(level="model_checking", design="4/C16",
                text="34-operation alphabet (incl. refresh operations: update with a packet the tracker itself stores) over 3 devices x 2 interfaces x 2-3 message variants (capture-module status: payload and header changed - uptime down where the timestamp goes up -, header only, base; interface status: header only; one of them with the header fields a reassembled packet carries; incl. data packets and status messages of other kinds, which must change nothing): unmerged tree of copied real Status objects to depth 4 (quick) / 5 (thorough) and to depth 6 / 8 over a sharp 13-operation sub-alphabet, every prefix judged, plus BFS merged on the full ordered observable state run to its fixpoint (all 109 591 reachable states of the alphabet); after every operation counts, lookups by id and every getter/byte of every stored packet are compared with a latest-message map. The sharp tree also runs with every lookup and getter exercised after EVERY operation of the history; four long histories pass every power of two up to 2^17 updates; update calls aborted by the failure of their n-th allocation (every n) after every history of <= 2 (thorough 3) operations must leave the tracker equal to the map without or with the message, and the repeated update and one more operation are judged.",
                note="Vector order is not constrained; 'random beyond the bound' is not done (the completed bound is reported).",
                technique="explicit-state model checking (operation-sequence tree + BFS with state merging) of the real object against a reference model"),
    "C20": dict(level="model_checking", design="4/C20",
                text="Uninitialised memory is treated as an environment answer the harness owns: a deterministic list of ~1900 workloads (encoder, round trips, decoder on independently built frames incl. cuts/padding, reassembly, TECMP conversion of well-formed, truncated and lying messages, builders x prior contents, serialised default headers/packets, status tracker) is executed under two environments that differ in every fresh stack byte (-ftrivial-auto-var-init=zero vs =pattern) and heap byte (MALLOC_PERTURB_ + heap churn); all output digests must agree; the list (quick: one workload per output shape, thorough: all) also runs under valgrind memcheck with a definedness check on every output buffer, which also reports decisions on uninitialised values.",
                note="Two fill patterns decide dependence on uninitialised content; valgrind decides definedness on the executed paths only. MSan is unusable here without an instrumented libstdc++.",
                technique="exhaustive enumeration of a workload list x environment answers for uninitialised memory (differential) + definedness monitor on every output"),
    "C19": dict(level="model_checking", design="4/C19",
                text="Five thread bodies (encoder, decoder, static TECMP decoder, status tracker, builders/values), each on its own objects and parameterised by a thread-unique value, plus a hand-over pair (a decoder's owner goes on decoding while another thread reads, copies, feeds to its own Status / Encoder and destroys the packets that decoder returned earlier; rebuilt before every execution) and a copy family (each thread works on its own copy of one configured prototype encoder / decoder with an open message / status tracker), a shared-input family (the threads' inputs - const packets never serialised before, const CMP and TECMP frame buffers - are the same objects), a big-state pair (two decoders each holding 300 reassemblies of 65000 bytes at once; digest oracle), run as real pthreads under a serialising scheduler; scheduling points are inserted by the compiler (sanitizer coverage). Explored exhaustively: all interleavings at API level for all 15 body pairs, all schedules with <= 1 preemption at function-entry level for all pairs and at basic-block level for same-body pairs, <= 2 preemptions for two same-body pairs (thorough: <= 2 for all pairs, <= 1 at basic-block level for all pairs, 3-thread sets). Per schedule: digests equal the solo run (reference digests from a cold child process), ASan clean, and a confinement monitor over every library load/store reports any granule touched by two threads with a write. A separate free-running ThreadSanitizer pass covers what a serialising scheduler hides from a race detector.",
                note="Preemption inside uninstrumented libstdc++/libc and weak-memory effects are not modelled; k > 2 at function granularity is not explored.",
                technique="stateless model checking: preemption-bounded exhaustive schedule exploration of the real code under a controlled scheduler, plus free-running TSan pass"),
}

PENDING_REASON = "check under construction (see DESIGN.md section 4); will be claimed once its engine is committed"


def main():
    ids = [json.loads(l)["id"] for l in open(os.path.join(VERIF, "properties.jsonl"))]
    checks = []
    for pid in ids:
        if pid not in CHECKS:
            continue
        c = CHECKS[pid]
        checks.append({
            "property_id": pid,
            "quick_cmd": "./check %s quick" % pid,
            "thorough_cmd": "./check %s thorough" % pid,
            "evidence_file": "/verif/evidence/%s.json" % pid,
            "replay_cmd_template": "./check --replay {path}",
            "engine": [e[0] for e in ENGINES if pid in e[2]][0],
            "level_claimed": {"category": c["level"], "text": c["text"], "design_ref": "DESIGN.md section " + c["design"]},
            "level_note": c["note"],
            "technique": c["technique"],
        })
    m = {
        "version": 1,
        "setup_cmd": "python3 /verif/tools/setup.py",
        "hooks": {
            "guard": "ASAM_CMP_VERIF",
            "enable": "every check compiles /repo/src/*.cpp from the current working tree itself with -DASAM_CMP_VERIF (mc/build.py); nothing is taken from /repo/_build",
            "baseline_off_cmd": "cmake --build /repo/_build && ctest --test-dir /repo/_build -j8 --timeout 900",
            "source_commits": HOOK_COMMITS,
            "add_only": True,
        },
        "engines": [{"name": n, "path": p, "serves_properties": s, "kind_free_text": k} for n, p, s, k in ENGINES
                    if os.path.exists(os.path.join(VERIF, p))],
        "checks": checks,
        "not_applicable": [{"property_id": i, "reason": PENDING_REASON} for i in ids if i not in CHECKS],
        "notes": "All checks: ./check <ID> [quick|thorough]; replay: ./check --replay <file>. Known findings: /verif/KNOWN_FINDINGS.txt. "
                 "VERIF_SEED is accepted and ignored (nothing is sampled).",
    }
    path = os.path.join(VERIF, "MANIFEST.json")
    json.dump(m, open(path, "w"), indent=1)
    r = subprocess.run(["python3-vt", "-c",
                        "import json,jsonschema;jsonschema.validate(json.load(open('%s')),json.load(open('/root/.vp/MANIFEST.schema.json')));print('MANIFEST valid, %d checks')"
                        % (path, len(checks))])
    sys.exit(r.returncode)


if __name__ == "__main__":
    main()
