#!/bin/bash
# usage: tools/run_seeded.sh <tree-with-change> [ID ...]
# Runs the quick checks (all, or the listed ones) against a scratch tree that carries a seeded change,
# without touching /repo, the real build cache or the real evidence. Prints one line per check.
TREE=$1; shift
IDS=${@:-C01 C02 C03 C04 C05 C06 C07 C08 C09 C10 C11 C12 C13 C14 C15 C16 C17 C18 C19 C20}
OUT=$(mktemp -d /tmp/seedrun.XXXXXX)
export VERIF_REPO=$TREE VERIF_BUILD=$OUT/build VERIF_OUT=$OUT
for id in $IDS; do
  /verif/check $id quick > $OUT/$id.log 2>&1; rc=$?
  nv=$(grep -c '^VIOLATION' $OUT/$id.log)
  echo "$id rc=$rc violations=$nv $(grep -m2 '^  key=' $OUT/$id.log | tr '\n' ' ' | cut -c1-220)"
done
rm -rf $OUT/build
echo "logs: $OUT"
