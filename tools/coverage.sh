#!/bin/bash
# Branch/line coverage of the library sources under the quick tier of the asan-config checks
# (meta-evaluation: shows which library code the enumerations never reach). Output: coverage/summary.txt
set -e
OUT=$(mktemp -d /tmp/covrun.XXXXXX)
export VERIF_BUILD=$OUT/build VERIF_OUT=$OUT VERIF_DEADLINE_S=600
cd /verif
for eng in enc dec wire obj status; do python3 mc/build.py cov $eng > /dev/null; done
run() { b=$(python3 mc/build.py cov $1 | tail -1); shift; for p in "$@"; do VERIF_DIR=/verif $b $p quick | tail -1; done; }
run enc C01 C07 C08 C09 C10
run dec C05 C06 C17 C18
run wire C02 C03 C04 C15
run obj C11 C12 C13 C14
run status C16
mkdir -p /verif/coverage
cd $OUT/build/cov
: > /verif/coverage/summary.txt
for o in lib_*.o; do
  src=/repo/src/$(echo $o | sed 's/^lib_//; s/-[0-9a-f]*\.o$//').cpp
  ln -sf $o.gcno ${o%.o}.gcno; ln -sf $o.gcda ${o%.o}.gcda
  gcov -b -c -o $o $src > gcov.out 2>/dev/null || true
  awk -v f="$src" '/^File / {p = index($0, f) > 0} p && /^Lines executed/ {l=$0} p && /^Taken at least once/ {print f ": " l "; " $0; p=0}' gcov.out >> /verif/coverage/summary.txt
done
sort -o /verif/coverage/summary.txt /verif/coverage/summary.txt
# unexecuted lines of the library sources
: > /verif/coverage/unexecuted.txt
for g in *.cpp.gcov; do
  case $g in *'#'*) continue;; esac
  grep -n "#####" $g | grep -v "^\s*-" | sed "s|^|$g: |" >> /verif/coverage/unexecuted.txt || true
done
cat /verif/coverage/summary.txt
rm -rf $OUT
