#!/usr/bin/env python3
"""Replace one exact snippet in a file while preserving its line-ending convention.
usage: crlf_edit.py FILE OLDFILE NEWFILE   (OLD/NEW given with LF endings)"""
import sys
p, oldf, newf = sys.argv[1:4]
raw = open(p, 'rb').read()
crlf = b'\r\n' in raw
s = raw.decode().replace('\r\n', '\n')
old = open(oldf).read(); new = open(newf).read()
assert s.count(old) == 1, "old snippet occurs %d times" % s.count(old)
s = s.replace(old, new)
if crlf: s = s.replace('\n', '\r\n')
open(p, 'wb').write(s.encode())
