// Open known finding of C07 (DESIGN.md 0.2a) shown on the real code without the explorer:
//   g++ -std=c++17 -I/repo/include findings/C07-zero-length-payload.cpp /repo/src/*.cpp -o /dev/shm/p && /dev/shm/p
// prints one 64-byte frame that holds the 8-byte header and padding only (no message).
#include <asam_cmp/encoder.h>
#include <asam_cmp/packet.h>
#include <asam_cmp/can_payload.h>
#include <asam_cmp/payload.h>
#include <cstdio>
using namespace ASAM::CMP;
int main(){
  Encoder e; e.setDeviceId(1); e.setStreamId(2);
  DataContext dc{64,1500};
  Packet p; p.setVersion(1);
  Payload pl(PayloadType::can, nullptr, 0);
  p.setPayload(pl);
  printf("payload len %zu\n", p.getPayloadLength());
  auto f = e.encode(p, dc);
  printf("frames %zu\n", f.size());
  for (auto& x: f){ printf("size %zu:", x.size()); for (size_t i=0;i<x.size()&&i<32;i++) printf(" %02x", x[i]); printf("\n"); }
  std::vector<Packet> v{p};
  auto g = e.encode(v.begin(), v.end(), dc);
  printf("batch frames %zu\n", g.size());
}
