// Interface of the serialising scheduler runtime (mc/sched_rt.cpp, compiled WITHOUT instrumentation).
#pragma once
#include <cstddef>
#include <cstdint>

namespace srt {

enum Level
{
    L_API = 0,    // only explicit points between library calls
    L_FUNC = 1,   // + entries of functions named ASAM::CMP:: / TECMP::
    L_BB = 2      // + every basic block of code compiled in the library translation units
};

constexpr int MAXT = 4;
constexpr int MAXDEV = 8;

struct Deviation
{
    uint32_t point;   // index of the scheduling point (global order of the execution)
    uint8_t thread;   // thread that runs after this point
};

struct Conflict
{
    uintptr_t addr;
    uint8_t writers, readers;   // thread bit masks
    uintptr_t pc;
    bool global;
};

struct PointInfo
{
    uint8_t running;      // thread that arrived at the point
    uint8_t enabled;      // bit mask of unfinished threads at that moment
    uint8_t atEnd;        // the point is the end of the running thread
};

struct ExecResult
{
    uint32_t npoints;
    uint32_t preemptions;
    bool diverged;                 // a deviation named a thread that was not enabled / point never reached
    uint32_t nconflicts;
    Conflict conflicts[8];
    uint64_t libLoads, libStores, globalAccesses;
};

using Body = void (*)(int tid, void* arg);

void init(int nthreads);
void shutdown();
// Runs bodies[0..n) concurrently under the scheduler: `first` starts; deviations are applied at their
// point indices; everywhere else the running thread continues (at a thread end: lowest unfinished id).
ExecResult run(int n, Body* bodies, void** args, Level level, int first, const Deviation* dev, int ndev, PointInfo* points, uint32_t maxPoints);
// explicit API-level scheduling point (called by thread bodies between library calls)
void apiPoint();
uint32_t guardCount();
uint32_t funcGuardCount();

}  // namespace srt
