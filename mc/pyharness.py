"""Evidence / known-findings / violation output for the Python-driven engines (sched, uninit):
same contract as mc/harness.h."""
import json
import os
import time

VERIF = os.environ.get("VERIF_DIR") or os.path.dirname(os.path.dirname(os.path.abspath(__file__)))
OUT = os.environ.get("VERIF_OUT") or VERIF


class Run:
    def __init__(self, engine, prop, tier):
        self.engine, self.prop, self.tier = engine, prop, tier
        self.t0 = time.time()
        self.level = "model_checking"
        self.rule = ""
        self.assumptions = []
        self.cov = {}
        self.samples = []
        self.fails = {}          # key -> dict(desc, case, count)
        self.exhaustive = True
        self.rounds = []
        self.status3 = False
        self.deadline = float(os.environ.get("VERIF_DEADLINE_S") or (150 if tier == "quick" else 1500))

    def out_of_time(self):
        return time.time() - self.t0 > self.deadline

    def fail(self, key, desc, case):
        f = self.fails.get(key)
        if f:
            f["count"] += 1
        else:
            self.fails[key] = {"desc": desc, "case": case, "count": 1}

    def known(self):
        out = {}
        try:
            for line in open(os.path.join(VERIF, "KNOWN_FINDINGS.txt")):
                if not line.startswith("open:") or ("property=%s " % self.prop) not in line or "key=" not in line:
                    continue
                k = line.split("key=", 1)[1]
                key, _, text = k.partition(" ::")
                out[key.strip()] = text.strip()
        except FileNotFoundError:
            pass
        return out

    def finish(self, evaluations, distinct, states, transitions, traces):
        known = self.known()
        status = 3 if self.status3 else 0
        nviol = nknown = 0
        os.makedirs(os.path.join(OUT, "replay"), exist_ok=True)
        vl = []
        for i, (key, f) in enumerate(sorted(self.fails.items())):
            if key in known:
                nknown += 1
                print("KNOWN-FINDING: property=%s key=%s occurrences=%d :: %s" % (self.prop, key, f["count"], known[key]))
                continue
            nviol += 1
            path = os.path.join(OUT, "replay", "%s-%s-%d.json" % (self.prop, self.tier, i))
            json.dump({"engine": self.engine, "property": self.prop, "tier": self.tier, "key": key, "occurrences": f["count"],
                       "what": f["desc"], "case": f["case"]}, open(path, "w"))
            print("VIOLATION property=%s replay=%s" % (self.prop, path))
            print("  key=%s occurrences=%d\n  %s" % (key, f["count"], f["desc"][:1200]))
            vl.append({"key": key, "occurrences": f["count"], "replay": path})
            status = status or 1
        cov = {"evaluations": evaluations, "distinct_nontrivial": distinct, "rule": self.rule, "states": states, "transitions": transitions,
               "traces_validated_against_impl": traces, "exhaustive": self.exhaustive, "rounds": self.rounds,
               "samples": self.samples[:10] or ["(no case executed)"], "known_findings_seen": nknown, "seed_used": False}
        cov.update(self.cov)
        if vl:
            cov["violation_list"] = vl[:10]
        ev = {"property_id": self.prop, "tier": self.tier, "seed": int(os.environ.get("VERIF_SEED") or 0), "level": self.level, "coverage": cov,
              "assumptions": self.assumptions, "wall_s": round(time.time() - self.t0, 3), "violations": nviol}
        os.makedirs(os.path.join(OUT, "evidence"), exist_ok=True)
        p = os.path.join(OUT, "evidence", self.prop + ".json")
        json.dump(ev, open(p + ".tmp", "w"), indent=1)
        os.replace(p + ".tmp", p)
        print("%s %s: cases=%d states=%d transitions=%d traces=%d distinct_outcomes=%d exhaustive=%s violations=%d known=%d wall=%.1fs"
              % (self.prop, self.tier, evaluations, states, transitions, traces, distinct, str(self.exhaustive).lower(), nviol, nknown, time.time() - self.t0))
        return status
