// Minimal ordered JSON writer (no library includes, no parsing).
#pragma once
#include <cstdint>
#include <cstdio>
#include <string>
#include <utility>
#include <vector>

namespace mc {

inline std::string jesc(const std::string& s)
{
    std::string o = "\"";
    for (unsigned char c : s)
    {
        switch (c)
        {
            case '"': o += "\\\""; break;
            case '\\': o += "\\\\"; break;
            case '\n': o += "\\n"; break;
            case '\t': o += "\\t"; break;
            case '\r': o += "\\r"; break;
            default:
                if (c < 0x20 || c >= 0x7f)
                {
                    char b[8];
                    snprintf(b, sizeof b, "\\u%04x", c);
                    o += b;
                }
                else
                    o += (char) c;
        }
    }
    return o + "\"";
}

class Json
{
public:
    Json() : text("null") {}
    static Json raw(std::string t) { Json j; j.text = std::move(t); return j; }
    static Json str(const std::string& s) { return raw(jesc(s)); }
    static Json num(uint64_t v) { return raw(std::to_string(v)); }
    static Json inum(int64_t v) { return raw(std::to_string(v)); }
    static Json real(double v) { char b[64]; snprintf(b, sizeof b, "%.3f", v); return raw(b); }
    static Json boolean(bool b) { return raw(b ? "true" : "false"); }
    static Json arr(const std::vector<Json>& v)
    {
        std::string t = "[";
        for (size_t i = 0; i < v.size(); ++i) { if (i) t += ", "; t += v[i].text; }
        return raw(t + "]");
    }
    static Json strarr(const std::vector<std::string>& v)
    {
        std::vector<Json> a;
        for (auto& s : v) a.push_back(str(s));
        return arr(a);
    }
    static Json obj(const std::vector<std::pair<std::string, Json>>& kv)
    {
        std::string t = "{";
        for (size_t i = 0; i < kv.size(); ++i) { if (i) t += ", "; t += jesc(kv[i].first) + ": " + kv[i].second.text; }
        return raw(t + "}");
    }
    std::string text;
};

}  // namespace mc
