// Serialising scheduler + sanitizer-coverage callbacks + confinement monitor for C19.
// This translation unit is compiled WITHOUT any instrumentation (no sancov, no ASan).
#include "mc/sched_rt.h"

#include <dlfcn.h>
#include <linux/futex.h>
#include <pthread.h>
#include <sys/syscall.h>
#include <unistd.h>

#include <atomic>
#include <cstdio>
#include <cstdlib>
#include <cstring>

extern "C" char __data_start;
extern "C" char _end;

namespace srt {
namespace {

// ---- guards --------------------------------------------------------------------------------------
uint32_t g_nguards = 0;
uint32_t g_nfunc = 0;
uint8_t* g_cls = nullptr;          // per guard id: bit0 function entry, bit1 library-named function
const uintptr_t* g_pcs = nullptr;  // pc-table (pc, flags) pairs
uint32_t* g_guard_start = nullptr;

bool libNamed(const char* n)
{
    if (!n)
        return false;
    return strncmp(n, "_ZN4ASAM3CMP", 12) == 0 || strncmp(n, "_ZNK4ASAM3CMP", 13) == 0 || strncmp(n, "_ZN5TECMP", 9) == 0 || strncmp(n, "_ZNK5TECMP", 10) == 0;
}

void classify()
{
    if (g_cls || !g_nguards || !g_pcs)
        return;
    g_cls = static_cast<uint8_t*>(calloc(g_nguards + 1, 1));
    for (uint32_t i = 0; i < g_nguards; ++i)
    {
        uintptr_t pc = g_pcs[2 * i], fl = g_pcs[2 * i + 1];
        Dl_info info;
        uint8_t c = 0;
        if (fl & 1)
            c |= 1;
        if (dladdr(reinterpret_cast<void*>(pc), &info) && libNamed(info.dli_sname))
            c |= 2;
        g_cls[i + 1] = c;
        if (c == 3)
            ++g_nfunc;
    }
}

// ---- scheduler state -----------------------------------------------------------------------------
struct Thread
{
    pthread_t th;
    std::atomic<int> turn{0};
    std::atomic<int> go{0};
    uintptr_t stackLo = 0, stackHi = 0;
    Body body = nullptr;
    void* arg = nullptr;
};
Thread g_t[MAXT];
int g_nthreads = 0;
std::atomic<int> g_quit{0};
std::atomic<int> g_mainWake{0};
thread_local int tl_tid = -1;
thread_local bool tl_inBody = false;

volatile bool g_active = false;
Level g_level = L_API;
uint32_t g_npoints = 0, g_preempt = 0, g_maxPoints = 0;
uint8_t g_finished = 0, g_all = 0;
const Deviation* g_dev = nullptr;
int g_ndev = 0, g_devi = 0;
bool g_diverged = false;
PointInfo* g_points = nullptr;
uint64_t g_loads = 0, g_stores = 0, g_globals = 0;

void futexWait(std::atomic<int>* w, int val) { syscall(SYS_futex, reinterpret_cast<int*>(w), FUTEX_WAIT_PRIVATE, val, nullptr, nullptr, 0); }
void futexWake(std::atomic<int>* w) { syscall(SYS_futex, reinterpret_cast<int*>(w), FUTEX_WAKE_PRIVATE, 1, nullptr, nullptr, 0); }

void give(int t)
{
    g_t[t].turn.store(1, std::memory_order_release);
    futexWake(&g_t[t].turn);
}
void take(int t)
{
    while (g_t[t].turn.load(std::memory_order_acquire) == 0)
        futexWait(&g_t[t].turn, 0);
    g_t[t].turn.store(0, std::memory_order_relaxed);
}
void wakeMain()
{
    g_mainWake.store(1, std::memory_order_release);
    futexWake(&g_mainWake);
}

// a scheduling point of the running thread t (which holds the token)
void point(int t, bool atEnd)
{
    uint32_t idx = g_npoints++;
    uint8_t enabled = (uint8_t) (g_all & ~g_finished);
    if (g_points && idx < g_maxPoints)
        g_points[idx] = PointInfo{(uint8_t) t, enabled, (uint8_t) atEnd};
    int next = atEnd ? -1 : t;
    if (g_devi < g_ndev && g_dev[g_devi].point == idx)
    {
        int want = g_dev[g_devi].thread;
        ++g_devi;
        if (want < g_nthreads && (enabled & (1u << want)))
            next = want;
        else
            g_diverged = true;
    }
    if (atEnd)
    {
        if (next < 0)
            for (int i = 0; i < g_nthreads; ++i)
                if (enabled & (1u << i))
                {
                    next = i;
                    break;
                }
        if (next < 0)
            wakeMain();
        else
            give(next);
        return;
    }
    if (next != t)
    {
        ++g_preempt;
        give(next);
        take(t);
    }
}

// ---- confinement monitor ---------------------------------------------------------------------------
struct Gran
{
    uintptr_t key;
    uint32_t gen;
    uint8_t w, r, global;
    uintptr_t pc;
};
constexpr size_t GCAP = 1 << 17;
Gran* g_gran = nullptr;
uint32_t g_gen = 1;
uint32_t* g_touched = nullptr;
uint32_t g_ntouched = 0;
bool g_touchedOverflow = false;

inline void access(uintptr_t addr, bool isWrite, uintptr_t pc)
{
    int t = tl_tid;
    if (t < 0 || !g_active || !tl_inBody)
        return;
    if (addr >= g_t[t].stackLo && addr < g_t[t].stackHi)
        return;
    if (isWrite)
        ++g_stores;
    else
        ++g_loads;
    bool global = addr >= reinterpret_cast<uintptr_t>(&__data_start) && addr < reinterpret_cast<uintptr_t>(&_end);
    if (global)
        ++g_globals;
    uintptr_t key = addr >> 3;
    size_t i = (size_t) ((key * 0x9E3779B97F4A7C15ull) >> 47) & (GCAP - 1);
    for (size_t probe = 0; probe < 128; ++probe, i = (i + 1) & (GCAP - 1))
    {
        Gran& g = g_gran[i];
        if (g.gen != g_gen)
        {
            g.gen = g_gen;
            g.key = key;
            g.w = g.r = 0;
            g.global = global;
            g.pc = pc;
            if (g_ntouched < GCAP)
                g_touched[g_ntouched++] = (uint32_t) i;
            else
                g_touchedOverflow = true;
        }
        if (g.key == key)
        {
            if (isWrite)
            {
                if (!(g.w & (1u << t)))
                    g.pc = pc;
                g.w |= (uint8_t) (1u << t);
            }
            else
                g.r |= (uint8_t) (1u << t);
            return;
        }
    }
    g_touchedOverflow = true;
}

void* threadMain(void* p)
{
    int t = (int) (intptr_t) p;
    tl_tid = t;
    pthread_attr_t a;
    pthread_getattr_np(pthread_self(), &a);
    void* lo;
    size_t sz;
    pthread_attr_getstack(&a, &lo, &sz);
    pthread_attr_destroy(&a);
    g_t[t].stackLo = reinterpret_cast<uintptr_t>(lo);
    g_t[t].stackHi = g_t[t].stackLo + sz;
    g_t[t].go.store(2);   // ready
    futexWake(&g_t[t].go);
    while (true)
    {
        take(t);
        if (g_quit.load())
            break;
        tl_inBody = true;
        g_t[t].body(t, g_t[t].arg);
        tl_inBody = false;
        g_finished |= (uint8_t) (1u << t);
        point(t, true);
    }
    return nullptr;
}

}  // namespace

void init(int n)
{
    classify();
    if (!g_gran)
    {
        g_gran = static_cast<Gran*>(calloc(GCAP, sizeof(Gran)));
        g_touched = static_cast<uint32_t*>(calloc(GCAP, sizeof(uint32_t)));
    }
    g_nthreads = n;
    for (int i = 0; i < n; ++i)
    {
        g_t[i].turn.store(0);
        g_t[i].go.store(0);
        pthread_create(&g_t[i].th, nullptr, threadMain, (void*) (intptr_t) i);
        while (g_t[i].go.load() != 2)
            futexWait(&g_t[i].go, 0);
    }
}

void shutdown()
{
    g_quit.store(1);
    for (int i = 0; i < g_nthreads; ++i)
    {
        give(i);
        pthread_join(g_t[i].th, nullptr);
    }
    g_nthreads = 0;
    g_quit.store(0);
}

ExecResult run(int n, Body* bodies, void** args, Level level, int first, const Deviation* dev, int ndev, PointInfo* points, uint32_t maxPoints)
{
    ExecResult r;
    memset(&r, 0, sizeof r);
    for (int i = 0; i < n; ++i)
    {
        g_t[i].body = bodies[i];
        g_t[i].arg = args[i];
    }
    g_level = level;
    g_npoints = 0;
    g_preempt = 0;
    g_finished = 0;
    g_all = (uint8_t) ((1u << n) - 1);
    g_dev = dev;
    g_ndev = ndev;
    g_devi = 0;
    g_diverged = false;
    g_points = points;
    g_maxPoints = maxPoints;
    g_loads = g_stores = g_globals = 0;
    ++g_gen;
    g_ntouched = 0;
    g_touchedOverflow = false;
    g_mainWake.store(0);
    g_active = true;
    give(first);
    while (g_mainWake.load(std::memory_order_acquire) == 0)
        futexWait(&g_mainWake, 0);
    g_active = false;
    r.npoints = g_npoints;
    r.preemptions = g_preempt;
    r.diverged = g_diverged || g_devi != g_ndev;
    r.libLoads = g_loads;
    r.libStores = g_stores;
    r.globalAccesses = g_globals;
    for (uint32_t k = 0; k < g_ntouched; ++k)
    {
        Gran& g = g_gran[g_touched[k]];
        uint8_t all = (uint8_t) (g.w | g.r);
        if (g.w && (all & (all - 1)))
        {
            if (r.nconflicts < 8)
                r.conflicts[r.nconflicts] = Conflict{g.key << 3, g.w, g.r, g.pc, g.global != 0};
            r.nconflicts++;
        }
    }
    return r;
}

void apiPoint()
{
    int t = tl_tid;
    if (t >= 0 && g_active && tl_inBody)
        point(t, false);
}

uint32_t guardCount() { return g_nguards; }
uint32_t funcGuardCount() { return g_nfunc; }

}  // namespace srt

// ---- sanitizer coverage callbacks --------------------------------------------------------------------
extern "C" {

void __sanitizer_cov_trace_pc_guard_init(uint32_t* start, uint32_t* stop)
{
    if (start == stop || *start)
        return;
    srt::g_guard_start = start;
    uint32_t n = 0;
    for (uint32_t* x = start; x < stop; ++x)
        *x = ++n;
    srt::g_nguards = n;
}

void __sanitizer_cov_pcs_init(const uintptr_t* beg, const uintptr_t* end)
{
    (void) end;
    if (!srt::g_pcs)
        srt::g_pcs = beg;
}

void __sanitizer_cov_trace_pc_guard(uint32_t* guard)
{
    int t = srt::tl_tid;
    if (t < 0 || !srt::g_active || !srt::tl_inBody || srt::g_level == srt::L_API)
        return;
    uint8_t c = srt::g_cls ? srt::g_cls[*guard] : 0;
    if (srt::g_level == srt::L_FUNC && c != 3)
        return;
    srt::point(t, false);
}

#define LD(N) \
    void __sanitizer_cov_load##N(void* a) { srt::access(reinterpret_cast<uintptr_t>(a), false, reinterpret_cast<uintptr_t>(__builtin_return_address(0))); }
#define ST(N) \
    void __sanitizer_cov_store##N(void* a) { srt::access(reinterpret_cast<uintptr_t>(a), true, reinterpret_cast<uintptr_t>(__builtin_return_address(0))); }
LD(1) LD(2) LD(4) LD(8) LD(16) ST(1) ST(2) ST(4) ST(8) ST(16)
}
