// Common exploration harness: forked workers over a shared work counter, results in shared memory so
// that a worker killed by a sanitizer report / signal / watchdog loses nothing, lazy case description,
// re-execution of every failure before it is reported, known-findings, evidence and replay files.
// No library includes here.
#pragma once
#include <fcntl.h>
#include <signal.h>
#include <sys/mman.h>
#include <sys/stat.h>
#include <sys/wait.h>
#include <unistd.h>

#include <algorithm>
#include <atomic>
#include <chrono>
#include <cstdint>
#include <cstdio>
#include <cstdlib>
#include <cstring>
#include <fstream>
#include <functional>
#include <map>
#include <set>
#include <sstream>
#include <string>
#include <tuple>
#include <unordered_set>
#include <vector>

#include "mc/json.h"

extern "C" const char* __asan_default_options()
{
    return "detect_leaks=0:abort_on_error=0:allocator_may_return_null=1:malloc_context_size=4:"
           "detect_stack_use_after_return=0:handle_abort=1:print_summary=1";
}
extern "C" const char* __ubsan_default_options()
{
    return "print_stacktrace=1:halt_on_error=1";
}

// coverage builds (tools/coverage.sh): workers leave through _exit, so the counters are dumped explicitly
#ifdef VERIF_COV
extern "C" void __gcov_dump(void);
#endif

namespace mc {

inline void worker_exit(int code)
{
#ifdef VERIF_COV
    __gcov_dump();
#endif
    _exit(code);
}

constexpr size_t CASE_MAX = 1 << 16;
constexpr int MAXFAIL = 32;
constexpr int NCOUNT = 24;
constexpr size_t DIST_CAP = 1 << 19;
constexpr int NSAMP = 4;
constexpr size_t SAMPLE_MAX = 1500;

enum Counter
{
    C_EVAL = 0,    // cases executed
    C_STATES,      // states visited (tree nodes / distinct merged states)
    C_TRANS,       // transitions executed on the implementation
    C_TRACES,      // complete traces (root-to-leaf paths / cases) judged against the oracle
    C_USER0        // first engine-specific counter
};

inline double now_s()
{
    using namespace std::chrono;
    return duration<double>(steady_clock::now().time_since_epoch()).count();
}

inline uint64_t fnv(const void* p, size_t n, uint64_t h = 1469598103934665603ull)
{
    auto b = static_cast<const uint8_t*>(p);
    for (size_t i = 0; i < n; ++i)
    {
        h ^= b[i];
        h *= 1099511628211ull;
    }
    return h;
}
inline uint64_t fnv_s(const std::string& s, uint64_t h = 1469598103934665603ull) { return fnv(s.data(), s.size(), h); }
inline uint64_t mix(uint64_t h, uint64_t v)
{
    h ^= v + 0x9e3779b97f4a7c15ull + (h << 6) + (h >> 2);
    return h * 0xff51afd7ed558ccdull;
}

inline std::string hex(const uint8_t* p, size_t n)
{
    static const char* d = "0123456789abcdef";
    std::string s;
    s.reserve(n * 2);
    for (size_t i = 0; i < n; ++i)
    {
        s += d[p[i] >> 4];
        s += d[p[i] & 15];
    }
    return s;
}
inline std::string hex(const std::vector<uint8_t>& v) { return hex(v.data(), v.size()); }
inline std::vector<uint8_t> unhex(const std::string& s)
{
    std::vector<uint8_t> v;
    auto val = [](char c) { return c <= '9' ? c - '0' : (c | 32) - 'a' + 10; };
    for (size_t i = 0; i + 1 < s.size(); i += 2)
        v.push_back((uint8_t) (val(s[i]) * 16 + val(s[i + 1])));
    return v;
}

// key=value;key=value parsing helpers for case strings
inline std::map<std::string, std::string> kv_parse(const std::string& s, char sep = ';')
{
    std::map<std::string, std::string> m;
    size_t i = 0;
    while (i < s.size())
    {
        size_t j = s.find(sep, i);
        if (j == std::string::npos)
            j = s.size();
        std::string item = s.substr(i, j - i);
        size_t e = item.find('=');
        if (e != std::string::npos)
            m[item.substr(0, e)] = item.substr(e + 1);
        i = j + 1;
    }
    return m;
}
inline std::vector<std::string> split(const std::string& s, char sep)
{
    std::vector<std::string> out;
    size_t i = 0;
    if (s.empty())
        return out;
    while (true)
    {
        size_t j = s.find(sep, i);
        if (j == std::string::npos)
        {
            out.push_back(s.substr(i));
            break;
        }
        out.push_back(s.substr(i, j - i));
        i = j + 1;
    }
    return out;
}

struct FailRec
{
    uint64_t outer, inner, count;
    char key[200];
    char desc[1400];
    char cs[CASE_MAX];
};

struct WorkerShm
{
    volatile uint64_t outer, inner;
    volatile int active;       // currently inside a round body
    volatile int deadline_hit;
    uint64_t c[NCOUNT];
    uint32_t nfail;
    uint64_t fail_overflow;
    FailRec fails[MAXFAIL];
    uint32_t nsamples;
    char samples[NSAMP + 1][SAMPLE_MAX];   // last slot = most recent case
    uint64_t distinct_n;
    uint64_t distinct_overflow;
    uint64_t distinct[DIST_CAP];
    char describe_out[CASE_MAX];
};

struct GlobalShm
{
    std::atomic<uint64_t> next_outer;
};

struct DeadlineHit
{
};

struct Fail
{
    std::string key, desc, cs;
    uint64_t outer = 0, inner = 0, count = 0;
    uint64_t round = 0;
    bool fatal = false;
    std::string repro;   // result of the re-execution ("" = not attempted yet)
};

// ---------------------------------------------------------------------------------------------
// Worker-side API
class W
{
public:
    WorkerShm* shm = nullptr;
    double deadline = 0;
    // fast-forward (after a fatal outcome) / describe mode
    bool ff = false;
    uint64_t ff_outer = 0, ff_inner = 0;
    bool describe = false;
    uint64_t stop_after = 0;   // in-context re-execution: stop the enumeration of this outer index behind this inner index
    // single-case (replay) mode: failures are collected locally
    bool single = false;
    std::vector<Fail> single_fails;
    uint64_t single_outcome = 0;
    struct SingleOut
    {
        int n;
        char key[16][200];
        char desc[16][1400];
    };
    SingleOut* single_out = nullptr;   // shared memory: failures survive the death of the replaying child

    template <class F>
    bool begin_case(const F& f)
    {
        desc_ctx = &f;
        desc_fn = [](const void* c) -> std::string { return (*static_cast<const F*>(c))(); };
        if (single)
            return true;
        uint64_t my = shm->inner + 1;
        shm->inner = my;
        if ((ff || describe) && shm->outer == ff_outer)
        {
            if (describe && my == ff_inner)
            {
                std::string s = desc_fn(desc_ctx);
                strncpy(shm->describe_out, s.c_str(), CASE_MAX - 1);
                _exit(0);
            }
            if (my <= ff_inner)
                return false;
        }
        if (describe)
            return false;
        if (stop_after && my > stop_after)
            throw DeadlineHit{};
        if ((++tick & 127) == 0 && now_s() > deadline)
        {
            shm->deadline_hit = 1;
            throw DeadlineHit{};
        }
        shm->c[C_EVAL]++;
        // samples: first cases, and always the most recent one in the last slot (cheaply: every 4096th)
        if (shm->nsamples < NSAMP && (shm->c[C_EVAL] == 1 || (shm->c[C_EVAL] % sample_stride) == 0))
        {
            std::string s = desc_fn(desc_ctx);
            strncpy(shm->samples[shm->nsamples], s.c_str(), SAMPLE_MAX - 1);
            shm->nsamples++;
            sample_stride *= 16;
        }
        // the most recent case of every 65536 goes into the extra slot (typically a deep one)
        if ((shm->c[C_EVAL] & 0xFFFF) == 0xFFFF)
        {
            std::string s = desc_fn(desc_ctx);
            strncpy(shm->samples[NSAMP], s.c_str(), SAMPLE_MAX - 1);
            shm->samples[NSAMP][SAMPLE_MAX - 1] = 0;
        }
        return true;
    }

    std::string current_case() const { return desc_fn ? desc_fn(desc_ctx) : std::string(); }

    void fail(const std::string& key, const std::string& desc)
    {
        if (single)
        {
            Fail f;
            f.key = key;
            f.desc = desc;
            single_fails.push_back(f);
            if (single_out && single_out->n < 16)
            {
                strncpy(single_out->key[single_out->n], key.c_str(), 199);
                strncpy(single_out->desc[single_out->n], desc.c_str(), 1399);
                single_out->n++;
            }
            return;
        }
        for (uint32_t i = 0; i < shm->nfail; ++i)
            if (key == shm->fails[i].key)
            {
                shm->fails[i].count++;
                return;
            }
        if (shm->nfail >= MAXFAIL)
        {
            shm->fail_overflow++;
            return;
        }
        FailRec& r = shm->fails[shm->nfail];
        r.outer = shm->outer;
        r.inner = shm->inner;
        r.count = 1;
        strncpy(r.key, key.c_str(), sizeof r.key - 1);
        strncpy(r.desc, desc.c_str(), sizeof r.desc - 1);
        std::string cs = current_case();
        strncpy(r.cs, cs.c_str(), CASE_MAX - 1);
        shm->nfail++;
    }

    void outcome(uint64_t h)
    {
        if (single)
        {
            single_outcome = mix(single_outcome, h);
            return;
        }
        if (h == 0)
            h = 1;
        size_t i = (size_t) (h * 0x9e3779b97f4a7c15ull >> 45) & (DIST_CAP - 1);
        for (size_t probe = 0; probe < 64; ++probe, i = (i + 1) & (DIST_CAP - 1))
        {
            if (shm->distinct[i] == h)
                return;
            if (shm->distinct[i] == 0)
            {
                if (shm->distinct_n >= DIST_CAP / 2)
                    break;
                shm->distinct[i] = h;
                shm->distinct_n++;
                return;
            }
        }
        shm->distinct_overflow++;
    }

    void add(int counter, uint64_t n = 1)
    {
        if (!single)
            shm->c[counter] += n;
    }

private:
    const void* desc_ctx = nullptr;
    std::string (*desc_fn)(const void*) = nullptr;
    uint64_t tick = 0;
    uint64_t sample_stride = 1;
};

// ---------------------------------------------------------------------------------------------
struct Options
{
    std::string engine, prop, tier = "quick";
    double deadline_s = 150;
    int workers = 16;
    double case_timeout_s = 30;
    std::string case_file;   // --case-file: replay one case
    long seed = 0;
};

inline std::string verif_dir()
{
    const char* e = getenv("VERIF_DIR");
    return e ? e : "/verif";
}

inline Options parse_args(int argc, char** argv, const std::string& engine)
{
    Options o;
    o.engine = engine;
    if (argc < 2)
    {
        fprintf(stderr, "usage: %s <PROP> [quick|thorough] [--case-file F]\n", argv[0]);
        exit(2);
    }
    o.prop = argv[1];
    if (const char* t = getenv("VERIF_TIER"))
        if (*t)
            o.tier = t;
    for (int i = 2; i < argc; ++i)
    {
        std::string a = argv[i];
        if (a == "quick" || a == "thorough")
            o.tier = a;
        else if (a == "--case-file" && i + 1 < argc)
            o.case_file = argv[++i];
    }
    o.deadline_s = o.tier == "quick" ? 150 : 1500;
    if (const char* d = getenv("VERIF_DEADLINE_S"))
        if (*d)
            o.deadline_s = atof(d);
    long n = sysconf(_SC_NPROCESSORS_ONLN);
    o.workers = (int) std::max(1l, std::min(16l, n));
    if (const char* w = getenv("VERIF_WORKERS"))
        if (*w)
            o.workers = std::max(1, atoi(w));
    if (const char* s = getenv("VERIF_SEED"))
        if (*s)
            o.seed = atol(s);
    if (o.tier == "thorough")
        o.case_timeout_s = 120;
    return o;
}

// Derive a finding key from what a dead worker wrote to stderr.
inline std::string fatal_key(const std::string& err, int status, bool timeout)
{
    if (timeout)
        return "timeout";
    std::string kind;
    size_t p;
    if ((p = err.find("AddressSanitizer: ")) != std::string::npos)
    {
        size_t q = p + 18;
        size_t e = err.find_first_of(" \n", q);
        kind = "asan:" + err.substr(q, e - q);
    }
    else if ((p = err.find("runtime error: ")) != std::string::npos)
    {
        size_t q = p + 15;
        size_t e = err.find('\n', q);
        std::string msg = err.substr(q, std::min<size_t>(e - q, 48));
        // strip numbers/addresses so that the key is stable
        std::string m2;
        for (char c : msg)
        {
            char d = isdigit((unsigned char) c) ? '#' : c;
            if (d == '#' && !m2.empty() && m2.back() == '#')
                continue;
            m2 += d;
        }
        kind = "ubsan:" + m2;
    }
    else if (WIFSIGNALED(status))
        kind = "signal-" + std::to_string(WTERMSIG(status));
    else
        kind = "exit-" + std::to_string(WEXITSTATUS(status));
    // first library frame
    std::string where = "?";
    size_t pos = 0;
    while (true)
    {
        size_t in = err.find(" in ", pos);
        if (in == std::string::npos)
            break;
        size_t s = in + 4;
        size_t e = err.find_first_of("(\n", s);
        std::string fn = err.substr(s, e - s);
        while (!fn.empty() && fn.back() == ' ')
            fn.pop_back();
        if (fn.rfind("ASAM::CMP::", 0) == 0 || fn.rfind("TECMP::", 0) == 0)
        {
            where = fn;
            break;
        }
        pos = s;
    }
    return kind + "@" + where;
}

// ---------------------------------------------------------------------------------------------
class Run
{
public:
    Options opt;
    std::string level = "model_checking";
    std::string rule;
    std::vector<std::string> assumptions;
    std::vector<std::pair<std::string, int>> counter_names;   // extra named counters for the evidence
    std::function<void(W&, const std::string&)> replay_case;  // run one case through the oracle
    std::vector<std::pair<std::string, Json>> extra;         // extra coverage keys

    uint64_t c[NCOUNT] = {0};
    std::unordered_set<uint64_t> distinct;
    uint64_t distinct_overflow = 0;
    std::map<std::string, Fail> fails;
    uint64_t fail_overflow = 0;
    std::vector<std::string> samples;
    std::vector<std::string> late_samples;
    std::vector<Json> rounds;
    bool exhaustive = true;
    int fatal_restarts = 0;
    double t0 = now_s();

    explicit Run(const Options& o) : opt(o) {}

    bool out_of_time() const { return now_s() - t0 > opt.deadline_s; }

    // Executes body(w, outer) for outer in [0, n_outer) on forked workers. Returns true if the round
    // completed (every outer index fully enumerated).
    bool round(const std::string& name, uint64_t n_outer, const std::function<void(W&, uint64_t)>& body)
    {
        double r0 = now_s();
        if (out_of_time())
        {
            exhaustive = false;
            rounds.push_back(Json::obj({{"round", Json::str(name)}, {"completed", Json::boolean(false)},
                                        {"reason", Json::str("deadline reached before the round started")}}));
            return false;
        }
        int nw = (int) std::min<uint64_t>((uint64_t) opt.workers, std::max<uint64_t>(1, n_outer));
        size_t gsz = sizeof(GlobalShm);
        auto g = static_cast<GlobalShm*>(mmap(nullptr, gsz, PROT_READ | PROT_WRITE, MAP_SHARED | MAP_ANONYMOUS, -1, 0));
        new (&g->next_outer) std::atomic<uint64_t>(0);
        std::vector<WorkerShm*> shm(nw);
        for (int i = 0; i < nw; ++i)
        {
            shm[i] = static_cast<WorkerShm*>(
                mmap(nullptr, sizeof(WorkerShm), PROT_READ | PROT_WRITE, MAP_SHARED | MAP_ANONYMOUS | MAP_NORESERVE, -1, 0));
            if (shm[i] == MAP_FAILED)
            {
                perror("mmap");
                exit(2);
            }
        }
        struct Slot
        {
            pid_t pid = -1;
            int errfd = -1;
            uint64_t last_outer = ~0ull, last_inner = ~0ull;
            double last_change = 0;
            bool done = false;
        };
        std::vector<Slot> slots(nw);
        uint64_t before_eval = c[C_EVAL];
        bool incomplete = false;

        auto spawn = [&](int i, bool resume, uint64_t ro, uint64_t ri) {
            char tmpl[] = "/dev/shm/verif-err-XXXXXX";
            int fd = mkstemp(tmpl);
            if (fd < 0)
            {
                char t2[] = "/tmp/verif-err-XXXXXX";
                fd = mkstemp(t2);
                unlink(t2);
            }
            else
                unlink(tmpl);
            fflush(stdout);
            fflush(stderr);
            pid_t pid = fork();
            if (pid == 0)
            {
                dup2(fd, 2);
                W w;
                w.shm = shm[i];
                w.deadline = t0 + opt.deadline_s;
                try
                {
                    if (resume)
                    {
                        w.ff = true;
                        w.ff_outer = ro;
                        w.ff_inner = ri;
                        shm[i]->outer = ro;
                        shm[i]->inner = 0;
                        shm[i]->active = 1;
                        body(w, ro);
                        w.ff = false;
                    }
                    while (true)
                    {
                        uint64_t o = g->next_outer.fetch_add(1);
                        if (o >= n_outer)
                            break;
                        shm[i]->outer = o;
                        shm[i]->inner = 0;
                        shm[i]->active = 1;
                        body(w, o);
                    }
                }
                catch (const DeadlineHit&)
                {
                }
                shm[i]->active = 0;
                fflush(stdout);
                worker_exit(0);
            }
            slots[i].pid = pid;
            slots[i].errfd = fd;
            slots[i].last_change = now_s();
            slots[i].last_outer = ~0ull;
            slots[i].done = false;
        };

        for (int i = 0; i < nw; ++i)
            spawn(i, false, 0, 0);

        int alive = nw;
        while (alive > 0)
        {
            bool progressed = false;
            for (int i = 0; i < nw; ++i)
            {
                Slot& s = slots[i];
                if (s.done)
                    continue;
                int status = 0;
                pid_t r = waitpid(s.pid, &status, WNOHANG);
                bool timeout = false;
                if (r == 0)
                {
                    uint64_t o = shm[i]->outer, in = shm[i]->inner;
                    double t = now_s();
                    if (o != s.last_outer || in != s.last_inner)
                    {
                        s.last_outer = o;
                        s.last_inner = in;
                        s.last_change = t;
                        continue;
                    }
                    else if (t - s.last_change > opt.case_timeout_s)
                    {
                        kill(s.pid, SIGKILL);
                        waitpid(s.pid, &status, 0);
                        timeout = true;
                        r = s.pid;
                    }
                    else
                        continue;
                }
                progressed = true;
                bool ok = !timeout && WIFEXITED(status) && WEXITSTATUS(status) == 0;
                if (ok)
                {
                    s.done = true;
                    close(s.errfd);
                    --alive;
                    continue;
                }
                // fatal outcome
                std::string err = slurp_fd(s.errfd);
                close(s.errfd);
                uint64_t fo = shm[i]->outer, fi = shm[i]->inner;
                std::string key = fatal_key(err, status, timeout);
                std::string cs = describe_case(body, fo, fi);
                Fail f;
                f.key = key;
                f.fatal = true;
                f.outer = fo;
                f.inner = fi;
                f.count = 1;
                f.cs = cs;
                f.desc = "worker died executing this case: " + tail(err, 1100);
                add_fail(f);
                ++fatal_restarts;
                if (fatal_restarts >= 24)
                {
                    // too many fatal outcomes: stop exploring, report what we have
                    incomplete = true;
                    s.done = true;
                    --alive;
                    g->next_outer.store(n_outer);
                    continue;
                }
                spawn(i, true, fo, fi);
            }
            if (!progressed)
                usleep(5000);
        }

        bool dl = false;
        for (int i = 0; i < nw; ++i)
        {
            WorkerShm* s = shm[i];
            for (int k = 0; k < NCOUNT; ++k)
                c[k] += s->c[k];
            for (size_t k = 0; k < DIST_CAP; ++k)
                if (s->distinct[k])
                    distinct.insert(s->distinct[k]);
            distinct_overflow += s->distinct_overflow;
            fail_overflow += s->fail_overflow;
            for (uint32_t k = 0; k < s->nfail; ++k)
            {
                Fail f;
                f.key = s->fails[k].key;
                f.desc = s->fails[k].desc;
                f.cs = s->fails[k].cs;
                f.outer = s->fails[k].outer;
                f.inner = s->fails[k].inner;
                f.count = s->fails[k].count;
                add_fail(f);
            }
            for (uint32_t k = 0; k < s->nsamples; ++k)
                samples.push_back(s->samples[k]);
            if (s->samples[NSAMP][0] && late_samples.size() < 4)
                late_samples.push_back(s->samples[NSAMP]);
            if (s->deadline_hit)
                dl = true;
            munmap(s, sizeof(WorkerShm));
        }
        munmap(g, gsz);
        // Re-execute every failure that is new in this round while the round's body is still alive: first alone on
        // fresh objects in a fresh process; if that does not reproduce it, once more IN CONTEXT (the enumeration of
        // its outer index from the start up to the failing case): a failure that only shows there depends on state
        // that earlier cases left behind in the process (hidden static / global / thread-local state).
        for (auto& kv : fails)
        {
            Fail& f = kv.second;
            if (f.round != rounds.size() || !f.repro.empty() || f.cs.empty() || !replay_case)
                continue;
            f.repro = reproduce(f);
            if (f.repro == "diverged" && !f.fatal && reproduceInContext(body, f, false))
                f.repro = "only-in-context";
            // leftovers of EARLIER outer indices handled by the same worker process: sequential prefix of the round
            if (f.repro == "diverged" && !f.fatal && reproduceInContext(body, f, true))
                f.repro = "only-in-context";
        }
        bool completed = !dl && !incomplete;
        if (!completed)
            exhaustive = false;
        rounds.push_back(Json::obj({{"round", Json::str(name)},
                                    {"completed", Json::boolean(completed)},
                                    {"outer_indices", Json::num(n_outer)},
                                    {"cases", Json::num(c[C_EVAL] - before_eval)},
                                    {"wall_s", Json::real(now_s() - r0)},
                                    {"reason", Json::str(completed ? "" : (dl ? "deadline hit; counts below are partial for this round"
                                                                               : "stopped after too many fatal outcomes"))}}));
        return completed;
    }

    void add_fail(Fail f)
    {
        f.round = rounds.size();
        auto it = fails.find(f.key);
        if (it == fails.end())
            fails[f.key] = f;
        else
        {
            uint64_t cnt = it->second.count + f.count;
            if (std::make_tuple(f.round, f.outer, f.inner) < std::make_tuple(it->second.round, it->second.outer, it->second.inner) && !f.cs.empty())
                it->second = f;
            it->second.count = cnt;
        }
    }

    // Finish: re-execute failures, apply known findings, write evidence + replay files, print result
    // lines, return the exit status.
    int finish()
    {
        std::string vd = verif_dir();
        // evidence / replay files go to $VERIF_OUT when set (mutation runs must not overwrite the real evidence)
        std::string od = getenv("VERIF_OUT") && *getenv("VERIF_OUT") ? std::string(getenv("VERIF_OUT")) : vd;
        // known findings
        std::set<std::string> known;
        std::map<std::string, std::string> known_text;
        {
            std::ifstream in(vd + "/KNOWN_FINDINGS.txt");
            std::string line;
            while (std::getline(in, line))
            {
                if (line.rfind("open:", 0) != 0)
                    continue;
                std::string want = "property=" + opt.prop + " ";
                size_t p = line.find(want);
                size_t k = line.find("key=");
                if (p == std::string::npos || k == std::string::npos)
                    continue;
                size_t e = line.find(" ::", k);
                std::string key = line.substr(k + 4, e == std::string::npos ? std::string::npos : e - (k + 4));
                while (!key.empty() && key.back() == ' ')
                    key.pop_back();
                known.insert(key);
                known_text[key] = e == std::string::npos ? "" : line.substr(e + 3);
            }
        }
        int status = 0;
        int nviol = 0, nknown = 0;
        std::vector<Json> vio_json;
        mkdir((od + "/replay").c_str(), 0755);
        int idx = 0;
        for (auto& kv : fails)
        {
            Fail& f = kv.second;
            bool is_known = known.count(f.key) > 0;
            // re-execute once more on fresh objects; must reproduce the same key
            std::string repro = "not-replayable";
            if (!f.repro.empty())
                repro = f.repro;
            else if (!f.cs.empty() && replay_case)
                repro = reproduce(f);
            if (repro == "only-in-context")
                f.desc += " [NOTE: this case passes when executed alone on fresh objects in a fresh process, and fails again when the enumeration of its outer index is "
                          "re-run from the start in a fresh process: the outcome depends on state that earlier calls left behind in the process (static / global / "
                          "thread-local state inside the library)]";
            if (repro == "diverged" && f.key.rfind("timeout", 0) == 0)
            {
                printf("NOTE property=%s a case hit the watchdog but completed when re-run alone with a x10 limit; not a hang, dropped\n",
                       opt.prop.c_str());
                continue;
            }
            if (repro == "diverged")
            {
                printf("HARNESS-NONDETERMINISM property=%s key=%s (failure did not reproduce on re-execution)\n",
                       opt.prop.c_str(), f.key.c_str());
                status = 3;
            }
            if (is_known)
            {
                ++nknown;
                printf("KNOWN-FINDING: property=%s key=%s occurrences=%llu :: %s\n", opt.prop.c_str(), f.key.c_str(),
                       (unsigned long long) f.count, known_text[f.key].c_str());
                continue;
            }
            ++nviol;
            std::string path = od + "/replay/" + opt.prop + "-" + opt.tier + "-" + std::to_string(idx++) + ".json";
            Json j = Json::obj({{"engine", Json::str(opt.engine)},
                                {"property", Json::str(opt.prop)},
                                {"tier", Json::str(opt.tier)},
                                {"key", Json::str(f.key)},
                                {"fatal", Json::boolean(f.fatal)},
                                {"occurrences", Json::num(f.count)},
                                {"reproduced", Json::str(repro)},
                                {"what", Json::str(f.desc)},
                                {"case", Json::str(f.cs)}});
            std::ofstream(path) << j.text << "\n";
            printf("VIOLATION property=%s replay=%s\n", opt.prop.c_str(), path.c_str());
            printf("  key=%s occurrences=%llu\n  %s\n", f.key.c_str(), (unsigned long long) f.count,
                   f.desc.substr(0, 600).c_str());
            if (vio_json.size() < 10)
                vio_json.push_back(Json::obj({{"key", Json::str(f.key)}, {"occurrences", Json::num(f.count)}, {"replay", Json::str(path)}}));
            if (status == 0)
                status = 1;
        }

        // evidence
        std::vector<std::string> smp;
        for (size_t i = 0; i < samples.size() && smp.size() < 10; i += std::max<size_t>(1, samples.size() / 10))
            smp.push_back(samples[i]);
        for (auto& l : late_samples)
            smp.push_back(l);
        if (smp.empty())
            smp.push_back("(no case executed)");
        std::vector<std::pair<std::string, Json>> cov = {
            {"evaluations", Json::num(c[C_EVAL])},
            {"distinct_nontrivial", Json::num(distinct.size())},
            {"rule", Json::str(rule)},
            {"states", Json::num(c[C_STATES])},
            {"transitions", Json::num(c[C_TRANS])},
            {"traces_validated_against_impl", Json::num(c[C_TRACES])},
            {"exhaustive", Json::boolean(exhaustive)},
            {"rounds", Json::arr(rounds)},
            {"samples", Json::strarr(smp)},
            {"distinct_table_overflow", Json::num(distinct_overflow)},
            {"known_findings_seen", Json::num((uint64_t) nknown)},
            {"seed_used", Json::boolean(false)},
        };
        for (auto& n : counter_names)
            cov.push_back({n.first, Json::num(c[n.second])});
        for (auto& e : extra)
            cov.push_back(e);
        if (!vio_json.empty())
            cov.push_back({"violation_list", Json::arr(vio_json)});
        Json ev = Json::obj({{"property_id", Json::str(opt.prop)},
                             {"tier", Json::str(opt.tier)},
                             {"seed", Json::inum(opt.seed)},
                             {"level", Json::str(level)},
                             {"coverage", Json::obj(cov)},
                             {"assumptions", Json::strarr(assumptions)},
                             {"wall_s", Json::real(now_s() - t0)},
                             {"violations", Json::num((uint64_t) nviol)}});
        mkdir((od + "/evidence").c_str(), 0755);
        std::string ep = od + "/evidence/" + opt.prop + ".json";
        {
            std::ofstream o(ep + ".tmp");
            o << ev.text << "\n";
        }
        rename((ep + ".tmp").c_str(), ep.c_str());
        printf("%s %s: cases=%llu states=%llu transitions=%llu traces=%llu distinct_outcomes=%zu exhaustive=%s "
               "violations=%d known=%d wall=%.1fs\n",
               opt.prop.c_str(), opt.tier.c_str(), (unsigned long long) c[C_EVAL], (unsigned long long) c[C_STATES],
               (unsigned long long) c[C_TRANS], (unsigned long long) c[C_TRACES], distinct.size(), exhaustive ? "true" : "false",
               nviol, nknown, now_s() - t0);
        fflush(stdout);
        return status;
    }

    // Run one case given as string (the --case-file path of ./check --replay). Exit status 0/1.
    int run_single(const std::string& cs)
    {
        Fail f;
        f.cs = cs;
        f.key = "";
        std::vector<Fail> got;
        bool fatal = false;
        std::string err;
        single_exec(cs, got, fatal, err);
        if (fatal)
        {
            printf("REPLAY property=%s FATAL %s\n%s\n", opt.prop.c_str(), fatal_key(err, 0x100, false).c_str(), tail(err, 3000).c_str());
            return 1;
        }
        for (auto& g : got)
            printf("REPLAY property=%s FAIL key=%s\n  %s\n", opt.prop.c_str(), g.key.c_str(), g.desc.c_str());
        if (got.empty())
            printf("REPLAY property=%s PASS (the case satisfies the oracle)\n", opt.prop.c_str());
        return got.empty() ? 0 : 1;
    }

private:
    static std::string slurp_fd(int fd)
    {
        std::string s;
        lseek(fd, 0, SEEK_SET);
        char buf[8192];
        ssize_t n;
        while ((n = read(fd, buf, sizeof buf)) > 0 && s.size() < (1 << 20))
            s.append(buf, (size_t) n);
        return s;
    }
    static std::string tail(const std::string& s, size_t n)
    {
        // keep the head of the report (most informative) rather than the tail
        return s.size() <= n ? s : s.substr(0, n);
    }

    std::string describe_case(const std::function<void(W&, uint64_t)>& body, uint64_t outer, uint64_t inner)
    {
        auto s = static_cast<WorkerShm*>(
            mmap(nullptr, sizeof(WorkerShm), PROT_READ | PROT_WRITE, MAP_SHARED | MAP_ANONYMOUS | MAP_NORESERVE, -1, 0));
        fflush(stdout);
        pid_t pid = fork();
        if (pid == 0)
        {
            int dn = open("/dev/null", O_WRONLY);
            dup2(dn, 2);
            W w;
            w.shm = s;
            w.describe = true;
            w.ff_outer = outer;
            w.ff_inner = inner;
            w.deadline = now_s() + 120;
            s->outer = outer;
            s->inner = 0;
            try
            {
                body(w, outer);
            }
            catch (...)
            {
            }
            _exit(0);
        }
        int st;
        double t = now_s();
        while (waitpid(pid, &st, WNOHANG) == 0)
        {
            if (now_s() - t > 120)
            {
                kill(pid, SIGKILL);
                waitpid(pid, &st, 0);
                break;
            }
            usleep(2000);
        }
        std::string out = s->describe_out;
        munmap(s, sizeof(WorkerShm));
        return out;
    }

    // executes replay_case(cs) in a forked child; collects failure keys
    void single_exec(const std::string& cs, std::vector<Fail>& got, bool& fatal, std::string& err)
    {
        using Out = W::SingleOut;
        auto o = static_cast<Out*>(mmap(nullptr, sizeof(Out), PROT_READ | PROT_WRITE, MAP_SHARED | MAP_ANONYMOUS, -1, 0));
        o->n = 0;
        char tmpl[] = "/dev/shm/verif-err-XXXXXX";
        int fd = mkstemp(tmpl);
        if (fd >= 0)
            unlink(tmpl);
        fflush(stdout);
        pid_t pid = fork();
        if (pid == 0)
        {
            if (fd >= 0)
                dup2(fd, 2);
            W w;
            w.single = true;
            w.single_out = o;
            replay_case(w, cs);
            _exit(0);
        }
        int st = 0;
        double t = now_s();
        bool to = false;
        while (waitpid(pid, &st, WNOHANG) == 0)
        {
            if (now_s() - t > opt.case_timeout_s * 10)
            {
                kill(pid, SIGKILL);
                waitpid(pid, &st, 0);
                to = true;
                break;
            }
            usleep(2000);
        }
        fatal = to || !(WIFEXITED(st) && WEXITSTATUS(st) == 0);
        if (fd >= 0)
        {
            err = slurp_fd(fd);
            close(fd);
        }
        if (fatal)
        {
            Fail f;
            f.key = fatal_key(err, st, to);
            f.fatal = true;
            got.push_back(f);
        }
        for (int i = 0; i < o->n; ++i)
        {
            Fail f;
            f.key = o->key[i];
            f.desc = o->desc[i];
            got.push_back(f);
        }
        munmap(o, sizeof(Out));
    }

    bool reproduceInContext(const std::function<void(W&, uint64_t)>& body, const Fail& f, bool wholePrefix)
    {
        auto s = static_cast<WorkerShm*>(
            mmap(nullptr, sizeof(WorkerShm), PROT_READ | PROT_WRITE, MAP_SHARED | MAP_ANONYMOUS | MAP_NORESERVE, -1, 0));
        fflush(stdout);
        pid_t pid = fork();
        if (pid == 0)
        {
            int dn = open("/dev/null", O_WRONLY);
            dup2(dn, 2);
            W w;
            w.shm = s;
            w.deadline = now_s() + 900;
            try
            {
                for (uint64_t o = wholePrefix ? 0 : f.outer; o <= f.outer; ++o)
                {
                    w.stop_after = o == f.outer ? f.inner : 0;
                    s->outer = o;
                    s->inner = 0;
                    try
                    {
                        body(w, o);
                    }
                    catch (const DeadlineHit&)
                    {
                        if (o != f.outer)
                            break;
                    }
                }
            }
            catch (...)
            {
            }
            _exit(0);
        }
        int st;
        double t = now_s();
        while (waitpid(pid, &st, WNOHANG) == 0)
        {
            if (now_s() - t > 900)
            {
                kill(pid, SIGKILL);
                waitpid(pid, &st, 0);
                break;
            }
            usleep(2000);
        }
        bool found = false;
        for (uint32_t k = 0; k < s->nfail; ++k)
            if (f.key == s->fails[k].key)
                found = true;
        munmap(s, sizeof(WorkerShm));
        return found;
    }

    std::string reproduce(const Fail& f)
    {
        std::vector<Fail> got;
        bool fatal = false;
        std::string err;
        single_exec(f.cs, got, fatal, err);
        for (auto& g : got)
            if (g.key == f.key)
                return "yes";
        // Outcomes of a memory error (which redzone / mapping / garbage value is hit) depend on the heap
        // layout, which differs between a long-running worker and a fresh replay process: if either run
        // shows a sanitizer report the failure stands, with the difference recorded.
        bool anyFatal = f.fatal;
        for (auto& g : got)
            anyFatal = anyFatal || g.fatal;
        if (anyFatal)
            return got.empty() ? "no (sanitizer outcome depends on heap layout; report text kept)" : "different-failure:" + got[0].key;
        // a timeout is re-run with x10 limit inside single_exec; if it now passes it was not a hang
        return "diverged";
    }
};

}  // namespace mc
