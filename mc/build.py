#!/usr/bin/env python3
"""Content-keyed build of the library (from the CURRENT working tree of $VERIF_REPO, default /repo)
plus one engine, under one of the configurations of DESIGN.md section 2.4.

usage: build.py <config> <engine-name>      -> prints the path of the linked binary on stdout

Objects are named <stem>-<sha256(source, every header it can see, flags)[:16]>.o, so a source edit
that is later reverted (with whatever mtime) can never leave a stale object behind.  Nothing is taken
from /repo/_build.
"""
import fcntl
import glob
import hashlib
import os
import subprocess
import sys
from concurrent.futures import ThreadPoolExecutor

VERIF = os.path.dirname(os.path.dirname(os.path.abspath(__file__)))
REPO = os.environ.get("VERIF_REPO", "/repo")
BUILD = os.environ.get("VERIF_BUILD", os.path.join(VERIF, "build"))

COMMON = ["-std=c++17", "-DASAM_CMP_VERIF", "-fno-omit-frame-pointer", "-pthread"]
SAN = ["-fsanitize=address,undefined", "-fno-sanitize=alignment,vptr,nonnull-attribute",
       "-fno-sanitize-recover=undefined"]

CONFIGS = {
    # name: (compiler, flags for the library, flags for harness, link flags)
    "asan": ("g++", ["-O1", "-g1"] + SAN, ["-O1", "-g1"] + SAN, SAN),
    "sched": ("clang++",
              ["-O0", "-g1", "-fsanitize=address",
               "-fsanitize-coverage=bb,trace-pc-guard,pc-table,trace-loads,trace-stores"],
              ["-O1", "-g1", "-fsanitize=address"],
              ["-fsanitize=address", "-rdynamic", "-ldl"]),
    "tsan": ("clang++", ["-O1", "-g1", "-fsanitize=thread"], ["-O1", "-g1", "-fsanitize=thread"],
             ["-fsanitize=thread"]),
    "plainA": ("g++", ["-O1", "-g1", "-ftrivial-auto-var-init=zero"], ["-O1", "-g1"], []),
    "plainB": ("g++", ["-O1", "-g1", "-ftrivial-auto-var-init=pattern"], ["-O1", "-g1"], []),
    "cov": ("g++", ["-O0", "-g1", "--coverage"], ["-O1", "-g1", "-DVERIF_COV"], ["--coverage"]),
}

# engine name -> (main source, extra harness sources, configs it may be built in)
ENGINES = {
    "enc": ("engines/enc.cpp", []),
    "dec": ("engines/dec.cpp", []),
    "wire": ("engines/wire.cpp", []),
    "obj": ("engines/obj.cpp", []),
    "status": ("engines/status.cpp", []),
    "sched": ("engines/sched.cpp", ["mc/sched_rt.cpp"]),
    "tsanrun": ("engines/sched.cpp", []),
    "uninit": ("engines/uninit.cpp", []),
}


def sha(*parts):
    h = hashlib.sha256()
    for p in parts:
        h.update(p if isinstance(p, bytes) else p.encode())
        h.update(b"\0")
    return h.hexdigest()[:16]


def read(p):
    with open(p, "rb") as f:
        return f.read()


def tree_digest(paths):
    h = hashlib.sha256()
    for p in sorted(paths):
        h.update(p.encode())
        h.update(b"\0")
        h.update(read(p))
        h.update(b"\0")
    return h.hexdigest()


def run(cmd):
    r = subprocess.run(cmd, stdout=subprocess.PIPE, stderr=subprocess.STDOUT, text=True)
    if r.returncode != 0:
        sys.stderr.write("BUILD FAILED: %s\n%s\n" % (" ".join(cmd), r.stdout))
        raise SystemExit(2)
    return r.stdout


def main():
    cfg, engine = sys.argv[1], sys.argv[2]
    cxx, libflags, hflags, ldflags = CONFIGS[cfg]
    main_src, extra = ENGINES[engine]
    outdir = os.path.join(BUILD, cfg)
    os.makedirs(outdir, exist_ok=True)
    lock = open(os.path.join(outdir, ".lock"), "w")
    fcntl.flock(lock, fcntl.LOCK_EX)

    cxxver = subprocess.run([cxx, "--version"], stdout=subprocess.PIPE, text=True).stdout.splitlines()[0]
    repo_headers = glob.glob(os.path.join(REPO, "include", "asam_cmp", "*.h"))
    repo_hdig = tree_digest(repo_headers)
    verif_headers = glob.glob(os.path.join(VERIF, "mc", "*.h")) + glob.glob(os.path.join(VERIF, "ref", "*.h")) \
        + glob.glob(os.path.join(VERIF, "engines", "*.h"))
    verif_hdig = tree_digest(verif_headers)

    jobs = []   # (obj path, cmd)
    objs = []
    keep = set()

    def want(src, flags, tag, hd):
        stem = tag + os.path.splitext(os.path.basename(src))[0]
        key = sha(read(src), hd, " ".join(flags), cxxver, REPO)
        obj = os.path.join(outdir, "%s-%s.o" % (stem, key))
        objs.append(obj)
        keep.add(obj)
        if not os.path.exists(obj):
            jobs.append((obj, [cxx] + flags + ["-c", src, "-o", obj + ".tmp%d" % os.getpid()]))
        return stem

    inc = ["-I", os.path.join(REPO, "include")]
    stems = set()
    for src in sorted(glob.glob(os.path.join(REPO, "src", "*.cpp"))):
        stems.add(want(src, COMMON + libflags + inc, "lib_", repo_hdig))
    hinc = inc + ["-I", VERIF]
    extra_defs = []
    if engine == "tsanrun":
        extra_defs = ["-DSCHED_FREE_RUNNING"]
    if cfg in ("plainA", "plainB"):
        extra_defs.append("-DVERIF_CFG_%s" % cfg.upper())
    stems.add(want(os.path.join(VERIF, main_src), COMMON + hflags + hinc + extra_defs, "eng_%s_" % engine,
                   repo_hdig + verif_hdig))
    for e in extra:
        # runtime pieces that must stay uninstrumented
        stems.add(want(os.path.join(VERIF, e), COMMON + ["-O1", "-g1"] + hinc, "rt_", verif_hdig))

    def compile_one(j):
        obj, cmd = j
        run(cmd)
        os.replace(cmd[-1], obj)

    if jobs:
        with ThreadPoolExecutor(max_workers=int(os.environ.get("VERIF_JOBS", "16"))) as ex:
            list(ex.map(compile_one, jobs))

    binkey = sha(*(objs + [" ".join(ldflags), cxxver]))
    binary = os.path.join(outdir, "%s-%s" % (engine, binkey))
    if not os.path.exists(binary):
        tmp = binary + ".tmp%d" % os.getpid()
        run([cxx] + objs + ldflags + ["-pthread", "-o", tmp])
        os.replace(tmp, binary)

    # delete superseded objects / binaries of the same stems
    for f in os.listdir(outdir):
        p = os.path.join(outdir, f)
        if f.endswith(".o"):
            stem = f.rsplit("-", 1)[0]
            if stem in stems and p not in keep:
                os.unlink(p)
        elif f.startswith(engine + "-") and p != binary and ".tmp" not in f:
            os.unlink(p)
    print(binary)


if __name__ == "__main__":
    main()
