// Allocation-fault injection: "the n-th allocation inside this library call fails" as an environment answer the harness owns.
//
// The engine that defines MC_ALLOCFAULT_IMPL before including this header replaces the global operator new / delete family
// (malloc / free underneath, so ASan keeps its redzones, quarantine and use-after-free detection). Between arm(n) and disarm()
// every allocation is counted and the n-th one throws std::bad_alloc exactly once; arm(0) only counts. The harness arms
// directly before a library call and disarms directly behind it (also on the exceptional path), so that only the library's own
// allocations are numbered: enumerating n = 1 .. (number of allocations of the fault-free call) visits EVERY point at which the
// call can be aborted by memory exhaustion. Executions are deterministic, so the numbering is stable between runs.
#pragma once
#include <cstddef>
#include <cstdlib>
#include <new>

namespace mc {
namespace af {
struct State
{
    bool armed = false;
    bool fired = false;
    long countdown = 0;
    unsigned long seen = 0;
};
extern State g;
inline void arm(long n)
{
    g.seen = 0;
    g.fired = false;
    g.countdown = n;
    g.armed = true;
}
// returns true if the fault was delivered
inline bool disarm()
{
    g.armed = false;
    g.countdown = 0;
    return g.fired;
}
inline unsigned long seen() { return g.seen; }
}  // namespace af
}  // namespace mc

#ifdef MC_ALLOCFAULT_IMPL
namespace mc {
namespace af {
State g;
static inline void* get(std::size_t n, std::size_t align, bool nothrow)
{
    if (g.armed)
    {
        ++g.seen;
        if (g.countdown > 0 && --g.countdown == 0)
        {
            g.fired = true;
            if (nothrow)
                return nullptr;
            throw std::bad_alloc();
        }
    }
    void* p = nullptr;
    if (align > alignof(std::max_align_t))
    {
        if (posix_memalign(&p, align, n ? n : 1) != 0)
            p = nullptr;
    }
    else
        p = std::malloc(n ? n : 1);
    if (!p && !nothrow)
        throw std::bad_alloc();
    return p;
}
}  // namespace af
}  // namespace mc

void* operator new(std::size_t n) { return mc::af::get(n, 0, false); }
void* operator new[](std::size_t n) { return mc::af::get(n, 0, false); }
void* operator new(std::size_t n, const std::nothrow_t&) noexcept { return mc::af::get(n, 0, true); }
void* operator new[](std::size_t n, const std::nothrow_t&) noexcept { return mc::af::get(n, 0, true); }
void* operator new(std::size_t n, std::align_val_t a) { return mc::af::get(n, (std::size_t) a, false); }
void* operator new[](std::size_t n, std::align_val_t a) { return mc::af::get(n, (std::size_t) a, false); }
void* operator new(std::size_t n, std::align_val_t a, const std::nothrow_t&) noexcept { return mc::af::get(n, (std::size_t) a, true); }
void* operator new[](std::size_t n, std::align_val_t a, const std::nothrow_t&) noexcept { return mc::af::get(n, (std::size_t) a, true); }
void operator delete(void* p) noexcept { std::free(p); }
void operator delete[](void* p) noexcept { std::free(p); }
void operator delete(void* p, std::size_t) noexcept { std::free(p); }
void operator delete[](void* p, std::size_t) noexcept { std::free(p); }
void operator delete(void* p, const std::nothrow_t&) noexcept { std::free(p); }
void operator delete[](void* p, const std::nothrow_t&) noexcept { std::free(p); }
void operator delete(void* p, std::align_val_t) noexcept { std::free(p); }
void operator delete[](void* p, std::align_val_t) noexcept { std::free(p); }
void operator delete(void* p, std::size_t, std::align_val_t) noexcept { std::free(p); }
void operator delete[](void* p, std::size_t, std::align_val_t) noexcept { std::free(p); }
void operator delete(void* p, std::align_val_t, const std::nothrow_t&) noexcept { std::free(p); }
void operator delete[](void* p, std::align_val_t, const std::nothrow_t&) noexcept { std::free(p); }
#endif
