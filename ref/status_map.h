// Reference model for C16: per-device, per-interface latest-message map. No library includes.
#pragma once
#include <cstdint>
#include <map>

namespace ref {

struct DeviceEntry
{
    int cmId = 0;                          // identity of the latest capture-module status packet
    std::map<uint32_t, int> interfaces;    // interface id -> identity of the latest interface status packet
};

struct StatusModel
{
    std::map<uint16_t, DeviceEntry> devices;

    void updateCm(uint16_t dev, int packetId) { devices[dev].cmId = packetId; }
    void updateIf(uint16_t dev, uint32_t ifid, int packetId)
    {
        auto it = devices.find(dev);
        if (it != devices.end())           // messages for unknown devices change nothing
            it->second.interfaces[ifid] = packetId;
    }
    void removeDevice(uint16_t dev) { devices.erase(dev); }
    void removeInterface(uint16_t dev, uint32_t ifid)
    {
        auto it = devices.find(dev);
        if (it != devices.end())
            it->second.interfaces.erase(ifid);
    }
    void clear() { devices.clear(); }
};

}  // namespace ref
