// The reassembly SPECIFICATION (properties C05 C06 C17) as a small map-based model.
// Written from the property texts, no library includes.
#pragma once
#include <cstdint>
#include <map>
#include <string>
#include <utility>
#include <vector>

#include "ref/wire.h"

namespace ref {

struct Delivered
{
    uint16_t device = 0;
    uint8_t stream = 0;
    uint8_t version = 0;
    uint8_t msgType = 0;
    MsgHdr h;              // header fields of the (first) message; h.plen = payload size
    Bytes payload;
    bool reassembled = false;
};

struct OpenMsg
{
    uint8_t version = 0;
    uint8_t msgType = 0;
    uint16_t lastSeq = 0;
    MsgHdr first;
    Bytes payload;         // concatenation of the declared bytes so far
    uint32_t segments = 0;
};

using EpKey = std::pair<uint16_t, uint8_t>;

class ReassemblyModel
{
public:
    std::map<EpKey, OpenMsg> open;

    // Returns the deliveries this frame causes. `tecmp` is set when the buffer is routed to the
    // TECMP decoder (first byte 0): the model then says nothing about deliveries and keeps its state.
    std::vector<Delivered> onFrame(const uint8_t* f, size_t n, bool* tecmp = nullptr)
    {
        std::vector<Delivered> out;
        if (tecmp)
            *tecmp = false;
        if (f == nullptr || n < FRAME_HDR)
            return out;
        if (f[0] == 0)
        {
            if (tecmp)
                *tecmp = true;
            return out;
        }
        FrameHdr fh = getFrameHdr(f);
        EpKey ep{fh.device, fh.stream};
        size_t off = FRAME_HDR;
        while (off < n)
        {
            size_t rem = n - off;
            bool valid = rem >= MSG_HDR;
            MsgHdr h;
            if (valid)
            {
                h = getMsgHdr(f + off);
                valid = h.plen <= rem - MSG_HDR && !(h.flags & FLAG_ERROR_IN_PAYLOAD) && h.ptype != 0;
            }
            if (!valid)
            {
                open.erase(ep);   // an invalid message aborts the endpoint's reassembly
                break;
            }
            const uint8_t* pay = f + off + MSG_HDR;
            if (h.seg() == SEG_NONE)
            {
                open.erase(ep);   // unsegmented traffic of the same endpoint supersedes an open message
                Delivered d;
                d.device = fh.device; d.stream = fh.stream; d.version = fh.version; d.msgType = fh.msgType;
                d.h = h;
                d.payload.assign(pay, pay + h.plen);
                out.push_back(d);
                off += MSG_HDR + h.plen;
                continue;
            }
            if (h.seg() == SEG_FIRST)
            {
                OpenMsg o;
                o.version = fh.version; o.msgType = fh.msgType; o.lastSeq = fh.seq; o.first = h;
                o.payload.assign(pay, pay + h.plen);   // declared bytes only
                o.segments = 1;
                open[ep] = o;
                break;   // a segment is alone in its frame
            }
            // intermediary or last
            auto it = open.find(ep);
            bool ok = it != open.end() && it->second.version == fh.version && it->second.msgType == fh.msgType &&
                      fh.seq == (uint16_t) (it->second.lastSeq + 1);
            if (!ok)
            {
                open.erase(ep);
                break;
            }
            OpenMsg& o = it->second;
            o.payload.insert(o.payload.end(), pay, pay + h.plen);
            o.lastSeq = fh.seq;
            o.segments++;
            if (h.seg() == SEG_LAST)
            {
                Delivered d;
                d.device = fh.device; d.stream = fh.stream; d.version = o.version; d.msgType = o.msgType;
                d.h = o.first;
                d.h.plen = (uint16_t) o.payload.size();
                d.payload = o.payload;
                d.reassembled = true;
                out.push_back(d);
                open.erase(it);
            }
            break;
        }
        return out;
    }

    size_t pendingBytesBound(const EpKey& ep) const
    {
        auto it = open.find(ep);
        return it == open.end() ? 0 : MSG_HDR + it->second.payload.size();
    }
};

}  // namespace ref
