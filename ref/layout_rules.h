// The aggregation / segmentation rules of property C08 as an executable specification (a greedy
// frame planner), and the sequence-counter model of C09. No library includes.
#pragma once
#include <cstdint>
#include <string>
#include <vector>

#include "ref/wire.h"

namespace ref {

struct PlanMsg
{
    int packet;        // index in the batch
    uint32_t off;      // offset of the slice inside the packet's payload
    uint32_t len;      // slice length
    uint8_t seg;       // SEG_NONE / FIRST / MID / LAST
    bool operator==(const PlanMsg& o) const { return packet == o.packet && off == o.off && len == o.len && seg == o.seg; }
};
struct PlanFrame
{
    uint8_t msgType = 0;
    bool holdsSegment = false;
    size_t used = FRAME_HDR;
    std::vector<PlanMsg> msgs;
};

struct PlanPacket
{
    uint8_t msgType;
    uint32_t len;
};

// A packet is segmented iff header + payload do not fit into an empty frame. Segments take
// u = max - 24 bytes each, the last one the rest, one per frame. An unsegmented packet is appended
// iff a current frame exists, holds no segment, has the same message type and enough room.
inline std::vector<PlanFrame> planLayout(const std::vector<PlanPacket>& batch, size_t maxFrame)
{
    std::vector<PlanFrame> frames;
    const size_t u = maxFrame - FRAME_HDR - MSG_HDR;
    for (int i = 0; i < (int) batch.size(); ++i)
    {
        const uint32_t L = batch[i].len;
        if (MSG_HDR + L > maxFrame - FRAME_HDR)
        {
            uint32_t off = 0;
            int k = 0;
            while (off < L)
            {
                uint32_t take = (uint32_t) std::min<size_t>(u, L - off);
                PlanFrame f;
                f.msgType = batch[i].msgType;
                f.holdsSegment = true;
                uint8_t seg = k == 0 ? SEG_FIRST : (off + take == L ? SEG_LAST : SEG_MID);
                f.msgs.push_back({i, off, take, seg});
                f.used = FRAME_HDR + MSG_HDR + take;
                frames.push_back(f);
                off += take;
                ++k;
            }
        }
        else
        {
            bool append = !frames.empty() && !frames.back().holdsSegment && frames.back().msgType == batch[i].msgType &&
                          frames.back().used + MSG_HDR + L <= maxFrame;
            if (!append)
            {
                PlanFrame f;
                f.msgType = batch[i].msgType;
                frames.push_back(f);
            }
            frames.back().msgs.push_back({i, 0, L, SEG_NONE});
            frames.back().used += MSG_HDR + L;
        }
    }
    return frames;
}

// C09 counter model
struct CounterModel
{
    bool any = false;          // a frame was emitted since the last reset
    uint16_t last = 0;         // counter of the last emitted frame
    uint16_t expectedNext = 1;
    void reset() { expectedNext = 1; any = false; }
    bool onFrame(uint16_t seq)
    {
        bool ok = seq == expectedNext;
        last = seq;
        any = true;
        expectedNext = (uint16_t) (seq + 1);
        return ok;
    }
};

}  // namespace ref
