// Independent builders / parsers for the typed ASAM CMP payloads and the three-valued validity
// classification used by C03/C04 (DESIGN.md Appendix A). No library includes.
#pragma once
#include <cstdint>
#include <string>
#include <vector>

#include "ref/wire.h"

namespace ref {

constexpr uint8_t PT_CAN = 1, PT_CANFD = 2, PT_LIN = 3, PT_ANALOG = 7, PT_ETH = 8;   // data messages
constexpr uint8_t PT_CM = 1, PT_IF = 2;                                               // status messages
constexpr size_t HDR_CAN = 16, HDR_LIN = 8, HDR_ETH = 6, HDR_ANALOG = 16, HDR_CM = 26, HDR_IF = 36;

struct CanF
{
    uint16_t flags = 0, reserved = 0;
    uint32_t idword = 0;     // b31 ide, b30 rtr/rrs, b29 rsvd, b28..0 id
    uint32_t crcword = 0;
    uint16_t errpos = 0;
    uint8_t dlc = 0, dataLen = 0;
    Bytes data;
};
inline Bytes canPayload(const CanF& f)
{
    Bytes b;
    put16(b, f.flags); put16(b, f.reserved); put32(b, f.idword); put32(b, f.crcword); put16(b, f.errpos); put8(b, f.dlc); put8(b, f.dataLen);
    putbytes(b, f.data);
    return b;
}
struct LinF
{
    uint16_t flags = 0, reserved = 0;
    uint8_t pid = 0, reserved2 = 0, checksum = 0, dataLen = 0;
    Bytes data;
};
inline Bytes linPayload(const LinF& f)
{
    Bytes b;
    put16(b, f.flags); put16(b, f.reserved); put8(b, f.pid); put8(b, f.reserved2); put8(b, f.checksum); put8(b, f.dataLen);
    putbytes(b, f.data);
    return b;
}
struct EthF
{
    uint16_t flags = 0, reserved = 0, dataLen = 0;
    Bytes data;
};
inline Bytes ethPayload(const EthF& f)
{
    Bytes b;
    put16(b, f.flags); put16(b, f.reserved); put16(b, f.dataLen);
    putbytes(b, f.data);
    return b;
}
struct AnalogF
{
    uint16_t flags = 0;
    uint8_t reserved = 0, unit = 0;
    uint32_t interval = 0, offset = 0, scalar = 0;   // IEEE-754 bit patterns
    Bytes samples;
};
inline Bytes analogPayload(const AnalogF& f)
{
    Bytes b;
    put16(b, f.flags); put8(b, f.reserved); put8(b, f.unit); put32(b, f.interval); put32(b, f.offset); put32(b, f.scalar);
    putbytes(b, f.samples);
    return b;
}
struct Section
{
    uint16_t declared = 0;
    Bytes bytes;
};
inline Section strSection(const std::string& s)
{
    Section x;
    x.bytes.assign(s.begin(), s.end());
    x.bytes.push_back(0);
    if (x.bytes.size() % 2)
        x.bytes.push_back(0);
    x.declared = (uint16_t) x.bytes.size();
    return x;
}
struct CmF
{
    uint64_t uptime = 0, gmIdentity = 0;
    uint32_t gmClockQuality = 0;
    uint16_t utcOffset = 0;
    uint8_t timeSource = 0, domain = 0, reserved = 0, gptpFlags = 0;
    Section s[5];   // device description, serial number, hw version, sw version, vendor data
};
inline Bytes cmPayload(const CmF& f, int nSections = 5)
{
    Bytes b;
    put64(b, f.uptime); put64(b, f.gmIdentity); put32(b, f.gmClockQuality); put16(b, f.utcOffset); put8(b, f.timeSource); put8(b, f.domain);
    put8(b, f.reserved); put8(b, f.gptpFlags);
    for (int i = 0; i < nSections; ++i)
    {
        put16(b, f.s[i].declared);
        putbytes(b, f.s[i].bytes);
    }
    return b;
}
struct IfF
{
    uint32_t ifid = 0, c[6] = {0, 0, 0, 0, 0, 0};   // msg total rx/tx, dropped rx/tx, errors rx/tx
    uint8_t type = 0, status = 0;
    uint16_t reserved = 0;
    uint32_t feature = 0;
    uint16_t streamDeclared = 0;
    Bytes streams;          // including the pad byte, exactly as on the wire
    uint16_t vendorDeclared = 0;
    Bytes vendor;
    int parts = 2;          // 0: header only, 1: header + stream section, 2: everything
};
inline Bytes ifPayload(const IfF& f)
{
    Bytes b;
    put32(b, f.ifid);
    for (int i = 0; i < 6; ++i)
        put32(b, f.c[i]);
    put8(b, f.type); put8(b, f.status); put16(b, f.reserved); put32(b, f.feature);
    if (f.parts >= 1)
    {
        put16(b, f.streamDeclared);
        putbytes(b, f.streams);
    }
    if (f.parts >= 2)
    {
        put16(b, f.vendorDeclared);
        putbytes(b, f.vendor);
    }
    return b;
}

// ---- validity --------------------------------------------------------------------------------
enum Validity
{
    MUST_VALID,
    MUST_INVALID,
    DONT_CARE
};

struct CmParsed
{
    bool ok = false;            // all five sections fit
    size_t off[5] = {0}, len[5] = {0};
    size_t end = 0;
};
inline CmParsed parseCm(const uint8_t* p, size_t n)
{
    CmParsed r;
    if (n < HDR_CM)
        return r;
    size_t o = HDR_CM;
    for (int i = 0; i < 5; ++i)
    {
        if (o + 2 > n)
            return r;
        size_t l = (size_t) rd(p + o, 2);
        o += 2;
        if (o + l > n)
            return r;
        r.off[i] = o;
        r.len[i] = l;
        o += l;
    }
    r.end = o;
    r.ok = true;
    return r;
}
struct IfParsed
{
    bool ok = false;
    size_t streamOff = 0, streamCount = 0, vendorOff = 0, vendorLen = 0, end = 0;
};
inline IfParsed parseIf(const uint8_t* p, size_t n)
{
    IfParsed r;
    if (n < HDR_IF + 2)
        return r;
    size_t o = HDR_IF;
    r.streamCount = (size_t) rd(p + o, 2);
    o += 2;
    r.streamOff = o;
    size_t padded = r.streamCount + (r.streamCount % 2);
    if (o + padded + 2 > n)
        return r;
    o += padded;
    r.vendorLen = (size_t) rd(p + o, 2);
    o += 2;
    r.vendorOff = o;
    if (o + r.vendorLen > n)
        return r;
    r.end = o + r.vendorLen;
    r.ok = true;
    return r;
}

// Validity of the payload bytes of a message with frame message type `mt` and payload type `pt`.
// `typed` reports whether (mt, pt) is one of the seven typed kinds.
inline Validity classify(uint8_t mt, uint8_t pt, const uint8_t* p, size_t n, bool* typed = nullptr)
{
    bool t = false;
    Validity v = MUST_VALID;
    if (mt == 0)
        v = DONT_CARE;
    if (mt == MT_DATA && (pt == PT_CAN || pt == PT_CANFD))
    {
        t = true;
        if (n < HDR_CAN)
            v = MUST_INVALID;
        else if (rd(p, 2) & 0x03FF)
            v = MUST_INVALID;                       // bus-error flags
        else if (p[15] > n - HDR_CAN)
            v = MUST_INVALID;                       // data length exceeds the payload
        else if (rd(p + 12, 2) != 0)
            v = DONT_CARE;                          // error position without error flags
    }
    else if (mt == MT_DATA && pt == PT_LIN)
    {
        t = true;
        if (n < HDR_LIN || p[7] > n - HDR_LIN)
            v = MUST_INVALID;
        else if (rd(p, 2) & 0x00FF)
            v = DONT_CARE;                          // the property names CAN/CAN-FD/Ethernet error flags only
    }
    else if (mt == MT_DATA && pt == PT_ANALOG)
    {
        t = true;
        if (n < HDR_ANALOG)
            v = MUST_INVALID;
        else if ((rd(p, 2) & 3) > 1)
            v = DONT_CARE;                          // reserved sample types
    }
    else if (mt == MT_DATA && pt == PT_ETH)
    {
        t = true;
        if (n < HDR_ETH)
            v = MUST_INVALID;
        else if (rd(p, 2) & 0x003B)
            v = MUST_INVALID;
        else if (rd(p + 4, 2) > n - HDR_ETH)
            v = MUST_INVALID;
    }
    else if (mt == MT_STATUS && pt == PT_CM)
    {
        t = true;
        CmParsed c = parseCm(p, n);
        if (!c.ok)
            v = MUST_INVALID;
        else if (c.end != n)
            v = DONT_CARE;                          // consistent sections followed by extra bytes
    }
    else if (mt == MT_STATUS && pt == PT_IF)
    {
        t = true;
        IfParsed c = parseIf(p, n);
        if (!c.ok)
            v = MUST_INVALID;
        else if (p[29] > 2 || c.end != n)
            v = DONT_CARE;
    }
    if (typed)
        *typed = t;
    return v;
}

}  // namespace ref
