// Independent big-endian wire layer for ASAM CMP and TECMP, written from the protocol layouts
// (DESIGN.md Appendix A). Includes NO library header: everything an oracle compares against is
// produced or parsed here.
#pragma once
#include <cstdint>
#include <cstring>
#include <string>
#include <vector>

namespace ref {

using Bytes = std::vector<uint8_t>;

inline void put8(Bytes& b, uint64_t v) { b.push_back((uint8_t) v); }
inline void put16(Bytes& b, uint64_t v) { b.push_back((uint8_t) (v >> 8)); b.push_back((uint8_t) v); }
inline void put32(Bytes& b, uint64_t v) { put16(b, v >> 16); put16(b, v & 0xFFFF); }
inline void put64(Bytes& b, uint64_t v) { put32(b, v >> 32); put32(b, v & 0xFFFFFFFFull); }
inline void putn(Bytes& b, uint64_t v, int width)
{
    for (int i = width - 1; i >= 0; --i)
        b.push_back((uint8_t) (v >> (8 * i)));
}
inline void putbytes(Bytes& b, const Bytes& x) { b.insert(b.end(), x.begin(), x.end()); }
inline uint64_t rd(const uint8_t* p, int width)
{
    uint64_t v = 0;
    for (int i = 0; i < width; ++i)
        v = (v << 8) | p[i];
    return v;
}
inline void wr(uint8_t* p, uint64_t v, int width)
{
    for (int i = width - 1; i >= 0; --i)
        *p++ = (uint8_t) (v >> (8 * i));
}

// ---- CMP frame header (8 bytes) and message header (16 bytes) ---------------------------------
constexpr size_t FRAME_HDR = 8;
constexpr size_t MSG_HDR = 16;

constexpr uint8_t MT_DATA = 1, MT_CONTROL = 2, MT_STATUS = 3, MT_VENDOR = 0xFF;
constexpr uint8_t SEG_NONE = 0, SEG_FIRST = 1, SEG_MID = 2, SEG_LAST = 3;   // value of flag bits 3..2
constexpr uint8_t FLAG_SEG_MASK = 0x0C, FLAG_ERROR_IN_PAYLOAD = 0x40;

struct FrameHdr
{
    uint8_t version = 1;
    uint8_t reserved = 0;
    uint16_t device = 0;
    uint8_t msgType = MT_DATA;
    uint8_t stream = 0;
    uint16_t seq = 0;
};

struct MsgHdr
{
    uint64_t ts = 0;
    uint32_t idword = 0;   // bytes 8..11: data: interface id; status/vendor: reserved(2) vendor id(2)
    uint8_t flags = 0;
    uint8_t ptype = 0;
    uint16_t plen = 0;
    uint8_t seg() const { return (flags & FLAG_SEG_MASK) >> 2; }
    uint16_t vendorId() const { return (uint16_t) (idword & 0xFFFF); }
};

inline void putFrameHdr(Bytes& b, const FrameHdr& h)
{
    put8(b, h.version); put8(b, h.reserved); put16(b, h.device); put8(b, h.msgType); put8(b, h.stream); put16(b, h.seq);
}
inline void putMsgHdr(Bytes& b, const MsgHdr& h)
{
    put64(b, h.ts); put32(b, h.idword); put8(b, h.flags); put8(b, h.ptype); put16(b, h.plen);
}
inline FrameHdr getFrameHdr(const uint8_t* p)
{
    FrameHdr h;
    h.version = p[0]; h.reserved = p[1]; h.device = (uint16_t) rd(p + 2, 2); h.msgType = p[4]; h.stream = p[5];
    h.seq = (uint16_t) rd(p + 6, 2);
    return h;
}
inline MsgHdr getMsgHdr(const uint8_t* p)
{
    MsgHdr h;
    h.ts = rd(p, 8); h.idword = (uint32_t) rd(p + 8, 4); h.flags = p[12]; h.ptype = p[13]; h.plen = (uint16_t) rd(p + 14, 2);
    return h;
}

struct Msg
{
    MsgHdr h;        // h.plen is what is WRITTEN to the wire (may deliberately differ from body.size())
    Bytes body;      // bytes that follow the message header
};

inline Msg mkMsg(uint8_t ptype, const Bytes& body, uint8_t flags = 0, uint64_t ts = 0, uint32_t idword = 0)
{
    Msg m;
    m.h.ts = ts; m.h.idword = idword; m.h.flags = flags; m.h.ptype = ptype; m.h.plen = (uint16_t) body.size();
    m.body = body;
    return m;
}

inline Bytes buildFrame(const FrameHdr& fh, const std::vector<Msg>& msgs)
{
    Bytes b;
    putFrameHdr(b, fh);
    for (auto& m : msgs)
    {
        putMsgHdr(b, m.h);
        putbytes(b, m.body);
    }
    return b;
}

// ---- frame walker ------------------------------------------------------------------------------
struct WalkedMsg
{
    MsgHdr h;
    size_t hdrOff = 0;       // offset of the message header inside the frame
    size_t payOff = 0;       // offset of the payload
};
struct Walked
{
    bool hdrOk = false;      // >= 8 bytes
    FrameHdr fh;
    std::vector<WalkedMsg> msgs;
    size_t used = 0;         // bytes covered by header + complete messages
    bool tailZero = true;    // everything after `used` is zero
    bool tailTruncatedMsg = false;   // a non-zero tail that does not form a complete message
};

// Messages tile the frame from offset 8. A message header whose 16 bytes are all zero starts the
// padding (generated packets never have payload-type byte 0).
inline Walked walk(const uint8_t* f, size_t n)
{
    Walked w;
    if (n < FRAME_HDR)
        return w;
    w.hdrOk = true;
    w.fh = getFrameHdr(f);
    size_t off = FRAME_HDR;
    while (off + MSG_HDR <= n)
    {
        bool allzero = true;
        for (size_t i = 0; i < MSG_HDR; ++i)
            if (f[off + i])
            {
                allzero = false;
                break;
            }
        if (allzero)
            break;
        MsgHdr h = getMsgHdr(f + off);
        if (off + MSG_HDR + h.plen > n)
        {
            w.tailTruncatedMsg = true;
            break;
        }
        WalkedMsg m;
        m.h = h; m.hdrOff = off; m.payOff = off + MSG_HDR;
        w.msgs.push_back(m);
        off += MSG_HDR + h.plen;
    }
    w.used = off;
    for (size_t i = off; i < n; ++i)
        if (f[i])
        {
            w.tailZero = false;
            break;
        }
    return w;
}
inline Walked walk(const Bytes& f) { return walk(f.data(), f.size()); }

}  // namespace ref

// ---- TECMP (12 + 16 byte header) -----------------------------------------------------------------
namespace ref {

constexpr size_t TECMP_HDR = 28;
constexpr uint8_t TM_CONTROL = 0, TM_CM_STATUS = 1, TM_BUS_STATUS = 2, TM_DATA = 3, TM_CFG_STATUS = 4, TM_REPLAY = 0x0A;
constexpr uint16_t TD_CAN = 2, TD_CANFD = 3, TD_LIN = 4, TD_FLEXRAY = 8, TD_RS232 = 0x10, TD_ANALOG = 0x20, TD_ETH = 0x80;

struct TecmpHdr
{
    uint16_t device = 0;      // the library's API is 8 bit, high byte must be 0 to be routed to TECMP
    uint16_t counter = 0;
    uint8_t version = 3;
    uint8_t msgType = TM_DATA;
    uint16_t dataType = TD_CAN;
    uint16_t reserved = 0;
    uint16_t deviceFlags = 0;
    uint32_t ifid = 0;
    uint64_t ts = 0;
    uint16_t plen = 0;        // written as is (may deliberately differ from the payload size)
    uint16_t dataFlags = 0;
};

inline void putTecmpHdr(Bytes& b, const TecmpHdr& h)
{
    put16(b, h.device); put16(b, h.counter); put8(b, h.version); put8(b, h.msgType); put16(b, h.dataType);
    put16(b, h.reserved); put16(b, h.deviceFlags); put32(b, h.ifid); put64(b, h.ts); put16(b, h.plen); put16(b, h.dataFlags);
}

inline Bytes tecmpFrame(TecmpHdr h, const Bytes& payload, bool fixLen = true)
{
    if (fixLen)
        h.plen = (uint16_t) payload.size();
    Bytes b;
    putTecmpHdr(b, h);
    putbytes(b, payload);
    return b;
}

inline Bytes tecmpCanPayload(uint32_t arbId, uint8_t lenByte, const Bytes& data, int crcBytes)
{
    Bytes p;
    put32(p, arbId); put8(p, lenByte); putbytes(p, data);
    for (int i = 0; i < crcBytes; ++i)
        put8(p, 0xC0 + i);
    return p;
}

inline Bytes tecmpLinPayload(uint8_t pid, uint8_t lenByte, const Bytes& data, bool withChecksum, uint8_t checksum)
{
    Bytes p;
    put8(p, pid); put8(p, lenByte); putbytes(p, data);
    if (withChecksum)
        put8(p, checksum);
    return p;
}

}  // namespace ref
