// C11 / C12 generic runners over the field table (engines/obj_fields.h).
#pragma once
#include <cstdarg>

#include <asam_cmp/packet.h>

#include <type_traits>

#include "engines/obj_fields.h"
#include "mc/harness.h"

using mc::W;
using ref::Bytes;

static inline std::string ofmt(const char* f, ...)
{
    char b[2048];
    va_list ap;
    va_start(ap, f);
    vsnprintf(b, sizeof b, f, ap);
    va_end(ap);
    return b;
}

static inline uint64_t maskBits(int bits) { return bits >= 64 ? ~0ull : ((1ull << bits) - 1); }

template <class T>
static std::vector<uint64_t> valuesFor(const tbl::Field<T>& f)
{
    if (!f.values.empty())
        return f.values;
    std::vector<uint64_t> v;
    if (f.bits <= 16)
    {
        for (uint64_t x = 0; x <= maskBits(f.bits); ++x)
            v.push_back(x);
        return v;
    }
    const uint64_t m = maskBits(f.bits);
    v.push_back(0);
    v.push_back(m);
    for (int b = 0; b < f.bits; ++b)
        v.push_back(1ull << b);
    for (int lane = 0; lane * 8 < f.bits; ++lane)
        for (uint64_t x = 0; x < 256; ++x)
        {
            uint64_t a = (x << (8 * lane)) & m;
            uint64_t o = (a | (~(0xFFull << (8 * lane)))) & m;
            v.push_back(a);
            v.push_back(o);
        }
    v.push_back(0x0102030405060708ull & m);
    v.push_back(0x0807060504030201ull & m);
    std::sort(v.begin(), v.end());
    v.erase(std::unique(v.begin(), v.end()), v.end());
    return v;
}

// mask of the raw image bits a field owns
template <class T>
static Bytes fieldMask(const tbl::Field<T>& f, size_t imgSize)
{
    Bytes m(imgSize, 0);
    if (f.off < 0)
        return m;
    uint64_t word = maskBits(f.bits) << f.shift;
    for (int i = 0; i < f.width; ++i)
    {
        size_t pos = (size_t) f.off + i;
        if (pos < imgSize)
            m[pos] = (uint8_t) (word >> (8 * (f.width - 1 - i)));
    }
    return m;
}

template <class T>
static bool overlap(const tbl::Field<T>& a, const tbl::Field<T>& b)
{
    if (a.off < 0 || b.off < 0)
    {
        for (auto& n : a.aliases)
            if (n == b.name)
                return true;
        for (auto& n : b.aliases)
            if (n == a.name)
                return true;
        return false;
    }
    size_t sz = (size_t) std::max(a.off + a.width, b.off + b.width);
    Bytes ma = fieldMask(a, sz), mb = fieldMask(b, sz);
    for (size_t i = 0; i < sz; ++i)
        if (ma[i] & mb[i])
            return true;
    return false;
}

static inline Bytes bgImage(size_t n, int bg)
{
    Bytes b(n);
    for (size_t i = 0; i < n; ++i)
        b[i] = bg == 1 ? 0x00 : (bg == 2 ? 0xFF : (uint8_t) (0x11 + i * 7));
    return b;
}

static inline void putField(Bytes& img, int off, int width, int shift, int bits, uint64_t v)
{
    uint64_t word = ref::rd(&img[off], width);
    uint64_t m = maskBits(bits) << shift;
    word = (word & ~m) | ((v << shift) & m);
    ref::wr(&img[off], word, width);
}

template <class T>
static T background(const tbl::Cls<T>& c, int bg, int extra)
{
    if (bg == 4)
        return c.consistent(extra);
    if (c.makeBg)
        return c.makeBg(bg);
    if (bg == 0)
        return c.dflt();
    return c.fromRaw(bgImage(c.hdrSize + (size_t) extra, bg));
}

// ---- C11 --------------------------------------------------------------------------------------------
template <class T>
static void c11One(W& w, const tbl::Cls<T>& c, size_t fi, int bg, int extra, uint64_t v, const T& base, const std::vector<uint64_t>& g0, const Bytes& raw0, bool held = false)
{
    const auto& f = c.fields[fi];
    T own = base;
    // payload classes: also on the object a Packet holds after setPayload (a base-class copy), reached through getPayload() and a cast,
    // which is how the library's users (and its own tests) edit the payload of a packet in place
    [[maybe_unused]] ASAM::CMP::Packet holder;
    T* tp = &own;
    if constexpr (std::is_base_of_v<ASAM::CMP::Payload, T>)
        if (held)
        {
            holder.setPayload(base);
            tp = &static_cast<T&>(holder.getPayload());
        }
    T& t = *tp;
    // every getter is called on THIS object before the write (an observation is an operation too)
    {
        uint64_t sink = 0;
        for (auto& x : c.fields)
            sink += x.get(t);
        asm volatile("" : : "r"(sink));
    }
    f.set(t, v);
    w.add(mc::C_TRANS, 1);
    uint64_t got = f.get(t);
    if (got != v)
        w.fail("set-get-mismatch:" + c.name + "::" + f.name,
               ofmt("background %d (+%d data bytes): set(0x%llx) then get() = 0x%llx", bg, extra, (unsigned long long) v, (unsigned long long) got));
    for (size_t j = 0; j < c.fields.size(); ++j)
    {
        if (j == fi || overlap(f, c.fields[j]))
            continue;
        uint64_t gj = c.fields[j].get(t);
        if (gj != g0[j])
            w.fail("side-effect:" + c.name + "::set" + f.name,
                   ofmt("background %d (+%d data bytes): set%s(0x%llx) changed %s from 0x%llx to 0x%llx", bg, extra, f.name.c_str(), (unsigned long long) v,
                        c.fields[j].name.c_str(), (unsigned long long) g0[j], (unsigned long long) gj));
    }
    if (c.raw)
    {
        Bytes r = c.raw(t);
        Bytes m = fieldMask(f, r.size());
        if (r.size() != raw0.size())
            w.fail("side-effect-on-raw-size:" + c.name + "::set" + f.name, ofmt("raw size changed from %zu to %zu", raw0.size(), r.size()));
        else
            for (size_t i = 0; i < r.size(); ++i)
                if ((r[i] ^ raw0[i]) & ~m[i])
                {
                    w.fail("side-effect-on-raw-bytes:" + c.name + "::set" + f.name,
                           ofmt("background %d (+%d data bytes): set%s(0x%llx) changed raw byte %zu from 0x%02x to 0x%02x (bits owned by the field there: 0x%02x)", bg, extra,
                                f.name.c_str(), (unsigned long long) v, i, raw0[i], r[i], m[i]));
                    break;
                }
    }
}

template <class T>
static void c11Field(W& w, const tbl::Cls<T>& c, size_t fi, int onlyBg = -1, int onlyExtra = -1, bool single = false, uint64_t sv = 0)
{
    const auto& f = c.fields[fi];
    std::vector<uint64_t> vals = single ? std::vector<uint64_t>{sv} : valuesFor(f);
    std::vector<int> extras = c.hasData ? std::vector<int>{0, 5} : std::vector<int>{0};
    for (int bg = 0; bg < 5; ++bg)
        for (int extra : extras)
        {
            if (bg == 4 && !c.consistent)
                continue;
            if ((onlyBg >= 0 && bg != onlyBg) || (onlyExtra >= 0 && extra != onlyExtra))
                continue;
            if (bg == 0 && extra != 0)
                continue;
            T base = background(c, bg, extra);
            std::vector<uint64_t> g0;
            for (auto& x : c.fields)
                g0.push_back(x.get(base));
            Bytes raw0 = c.raw ? c.raw(base) : Bytes{};
            // values relative to what the field holds now: the same value (redundant write), its low k bits for every k (a
            // "skip redundant write" shortcut that compares through a narrower view), every single bit flipped, the complement
            std::vector<uint64_t> rel;
            if (!single && f.values.empty() && f.bits > 1)
            {
                const uint64_t cur = g0[fi], m = maskBits(f.bits);
                rel.push_back(cur & m);
                rel.push_back(~cur & m);
                for (int k = 1; k < f.bits; ++k)
                {
                    rel.push_back(cur & maskBits(k));
                    rel.push_back((cur & ~maskBits(k)) & m);
                }
                if (f.bits > 16)
                    for (int b = 0; b < f.bits; ++b)
                        rel.push_back((cur ^ (1ull << b)) & m);
            }
            std::vector<uint64_t> allVals = vals;
            allVals.insert(allVals.end(), rel.begin(), rel.end());
            for (uint64_t v : allVals)
            {
                auto desc = [&] { return ofmt("k=c11;cls=%s;fld=%s;bg=%d;extra=%d;v=%llx", c.name.c_str(), f.name.c_str(), bg, extra, (unsigned long long) v); };
                if (!single && !w.begin_case(desc))
                    continue;
                c11One(w, c, fi, bg, extra, v, base, g0, raw0);
                if constexpr (std::is_base_of_v<ASAM::CMP::Payload, T>)
                    c11One(w, c, fi, bg + 10, extra, v, base, g0, raw0, true);   // reported as background 10..13: inside a Packet
                w.add(mc::C_TRACES, 1);
                w.add(mc::C_STATES, 1);
                w.outcome(mc::mix(mc::mix(mc::fnv_s(c.name + f.name), (uint64_t) __builtin_popcountll(v)), (uint64_t) bg * 8 + extra));
            }
            // booleans: set-clear, clear-set, set-set orders on one object
            if (f.bits == 1 && !single)
            {
                auto desc = [&] { return ofmt("k=c11seq;cls=%s;fld=%s;bg=%d;extra=%d", c.name.c_str(), f.name.c_str(), bg, extra); };
                if (w.begin_case(desc))
                {
                    T t = base;
                    const int seq[] = {1, 0, 1, 1, 0, 0, 1};
                    for (int s : seq)
                    {
                        f.set(t, (uint64_t) s);
                        if (f.get(t) != (uint64_t) s)
                            w.fail("flag-cannot-be-" + std::string(s ? "set" : "cleared") + ":" + c.name + "::" + f.name, ofmt("background %d: after set(%d) the getter returns %d", bg, s, !s));
                        for (size_t j = 0; j < c.fields.size(); ++j)
                            if (j != fi && !overlap(f, c.fields[j]) && c.fields[j].get(t) != g0[j])
                                w.fail("side-effect:" + c.name + "::set" + f.name, ofmt("background %d: toggling %s changed %s", bg, f.name.c_str(), c.fields[j].name.c_str()));
                    }
                    w.add(mc::C_TRANS, 7);
                }
            }
        }
}

// ---- C12 --------------------------------------------------------------------------------------------
template <class T>
static void c12Field(W& w, const tbl::Cls<T>& c, size_t fi, bool single = false, uint64_t sv = 0)
{
    const auto& f = c.fields[fi];
    if (f.off < 0)
        return;
    std::vector<uint64_t> vals = single ? std::vector<uint64_t>{sv} : valuesFor(f);
    T d = c.dflt();
    Bytes rawD = c.raw(d);
    std::vector<int> extras = c.hasData ? std::vector<int>{0, 5} : std::vector<int>{0};
    for (uint64_t v : vals)
    {
        auto desc = [&] { return ofmt("k=c12;cls=%s;fld=%s;v=%llx", c.name.c_str(), f.name.c_str(), (unsigned long long) v); };
        if (!single && !w.begin_case(desc))
            continue;
        // (a) API write into a default object -> hand-laid-out image
        {
            T t = c.dflt();
            f.set(t, v);
            Bytes r = c.raw(t);
            Bytes e = rawD;
            if ((size_t) (f.off + f.width) <= e.size())
                putField(e, f.off, f.width, f.shift, f.bits, v);
            if (r != e)
            {
                size_t k = 0;
                while (k < r.size() && k < e.size() && r[k] == e[k])
                    ++k;
                w.fail("layout:api-write-differs-from-wire-image:" + c.name + "::" + f.name,
                       ofmt("set%s(0x%llx) on a default object: raw bytes %s, the layout prescribes %s (first difference at byte %zu; field = %d bits at bit %d of the %d-byte "
                            "big-endian word at offset %d)",
                            f.name.c_str(), (unsigned long long) v, mc::hex(r).c_str(), mc::hex(e).c_str(), k, f.bits, f.shift, f.width, f.off));
            }
            w.add(mc::C_TRANS, 1);
        }
        // (a') API write into objects in zero / ones / counting states -> hand-laid-out image (stale bits must not survive)
        for (int bg = 1; bg < 4; ++bg)
        {
            Bytes img = bgImage(c.hdrSize, bg);
            T t = c.fromRaw(img);
            Bytes before = c.raw(t);
            f.set(t, v);
            Bytes r = c.raw(t);
            Bytes e = before;
            if ((size_t) (f.off + f.width) <= e.size())
                putField(e, f.off, f.width, f.shift, f.bits, v);
            if (r != e)
                w.fail("layout:api-write-differs-from-wire-image:" + c.name + "::" + f.name,
                       ofmt("set%s(0x%llx) on an object built from image %s: raw bytes %s, the layout prescribes %s", f.name.c_str(), (unsigned long long) v, mc::hex(before).c_str(),
                            mc::hex(r).c_str(), mc::hex(e).c_str()));
            w.add(mc::C_TRANS, 1);
        }
        // (a'') ... and into the semantically consistent object of the class (valid LIN parity / checksum, DLC matching the length)
        if (c.consistent)
        {
            T t = c.consistent(0);
            Bytes before = c.raw(t);
            f.set(t, v);
            Bytes r = c.raw(t);
            Bytes e = before;
            if ((size_t) (f.off + f.width) <= e.size())
                putField(e, f.off, f.width, f.shift, f.bits, v);
            if (r != e)
                w.fail("layout:api-write-differs-from-wire-image:" + c.name + "::" + f.name,
                       ofmt("set%s(0x%llx) on a semantically consistent object %s: raw bytes %s, the layout prescribes %s", f.name.c_str(), (unsigned long long) v, mc::hex(before).c_str(),
                            mc::hex(r).c_str(), mc::hex(e).c_str()));
            w.add(mc::C_TRANS, 1);
        }
        // (b) hand-laid-out image -> getter
        for (int bg = 1; bg < 4; ++bg)
            for (int extra : extras)
            {
                Bytes img = bgImage(c.hdrSize + (size_t) extra, bg);
                putField(img, f.off, f.width, f.shift, f.bits, v);
                T t = c.fromRaw(img);
                uint64_t got = f.get(t);
                if (got != v)
                    w.fail("layout:raw-read-differs-from-wire-value:" + c.name + "::" + f.name,
                           ofmt("image %s (background %d) carries 0x%llx in %d bits at bit %d of the %d-byte big-endian word at offset %d; get%s() = 0x%llx", mc::hex(img).c_str(), bg,
                                (unsigned long long) v, f.bits, f.shift, f.width, f.off, f.name.c_str(), (unsigned long long) got));
                w.add(mc::C_TRANS, 1);
            }
        w.add(mc::C_TRACES, 1);
        w.add(mc::C_STATES, 1);
        w.outcome(mc::mix(mc::fnv_s(c.name + f.name), (uint64_t) __builtin_popcountll(v)));
    }
}

template <class T>
static void c12Class(W& w, const tbl::Cls<T>& c)
{
    auto desc = [&] { return ofmt("k=c12cls;cls=%s", c.name.c_str()); };
    if (!w.begin_case(desc))
        return;
    T d = c.dflt();
    Bytes r = c.raw(d);
    if (c.size(d) != c.hdrSize || r.size() != c.hdrSize)
        w.fail("layout:header-size:" + c.name, ofmt("default object has %zu bytes (raw %zu), the standard size is %zu", c.size(d), r.size(), c.hdrSize));
    for (auto& rv : c.reserved)
        if ((size_t) rv.first < r.size() && (r[rv.first] & rv.second))
            w.fail("layout:reserved-nonzero-in-default-object:" + c.name, ofmt("byte %d of a default object is 0x%02x, reserved mask 0x%02x", rv.first, r[rv.first], rv.second));
    w.add(mc::C_TRACES, 1);
    w.add(mc::C_TRANS, 1);
}

// ---- type erasure -----------------------------------------------------------------------------------
struct ErasedCls
{
    std::string name;
    std::vector<std::string> fields;
    std::function<void(W&, const std::string& prop, size_t fi)> runField;
    std::function<void(W&)> runClass;   // C12 class-level checks
    std::function<void(W&, const std::string& prop, size_t fi, int bg, int extra, uint64_t v)> runOne;
    std::vector<std::string> assumptions;
};

template <class T>
static ErasedCls erase(tbl::Cls<T> c)
{
    ErasedCls e;
    e.name = c.name;
    e.assumptions = c.assumptions;
    for (auto& f : c.fields)
        e.fields.push_back(f.name);
    auto sp = std::make_shared<tbl::Cls<T>>(std::move(c));
    e.runField = [sp](W& w, const std::string& prop, size_t fi) {
        if (prop == "C11")
            c11Field(w, *sp, fi);
        else
            c12Field(w, *sp, fi);
    };
    e.runClass = [sp](W& w) {
        if (sp->raw)
            c12Class(w, *sp);
    };
    e.runOne = [sp](W& w, const std::string& prop, size_t fi, int bg, int extra, uint64_t v) {
        if (prop == "C11")
            c11Field(w, *sp, fi, bg, extra, true, v);
        else
            c12Field(w, *sp, fi, true, v);
    };
    return e;
}
