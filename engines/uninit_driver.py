#!/usr/bin/env python3
"""C20 driver: runs the workload list of engines/uninit.cpp
  (A) plainA build (-ftrivial-auto-var-init=zero),    MALLOC_PERTURB_=0x5A, heap churn 0x5A
  (B) plainB build (-ftrivial-auto-var-init=pattern), MALLOC_PERTURB_=0xC3, heap churn 0xC3
and compares every workload digest (oracle 1); then runs the list under valgrind memcheck with
VALGRIND_CHECK_MEM_IS_DEFINED on every output buffer (oracle 2)."""
import os
import re
import subprocess
import sys
from concurrent.futures import ThreadPoolExecutor

sys.path.insert(0, os.path.join(os.path.dirname(os.path.abspath(__file__)), ".."))
from mc.pyharness import Run, VERIF  # noqa: E402

NPROC = int(os.environ.get("VERIF_WORKERS") or min(16, os.cpu_count() or 1))


def build(cfg):
    r = subprocess.run([sys.executable, os.path.join(VERIF, "mc", "build.py"), cfg, "uninit"], stdout=subprocess.PIPE, text=True)
    if r.returncode != 0:
        print("BUILD-ERROR engine=uninit config=%s" % cfg)
        sys.exit(2)
    return r.stdout.strip().splitlines()[-1]


def run_range(binary, lo, hi, fill, valgrind=False, timeout=3000):
    env = dict(os.environ)
    env["MALLOC_PERTURB_"] = str(int(fill, 16))
    cmd = [binary, "run", str(lo), str(hi), fill]
    if valgrind:
        cmd = ["valgrind", "-q", "--error-exitcode=9", "--errors-for-leak-kinds=none", "--leak-check=no", "--num-callers=12"] + cmd
    try:
        r = subprocess.run(cmd, stdout=subprocess.PIPE, stderr=subprocess.PIPE, text=True, env=env, timeout=timeout, errors="replace")
        return r.returncode, r.stdout, r.stderr
    except subprocess.TimeoutExpired as e:
        return -99, (e.stdout or b"").decode(errors="replace") if isinstance(e.stdout, bytes) else (e.stdout or ""), "TIMEOUT"


def parse(stdout):
    d = {}
    for line in stdout.splitlines():
        m = re.match(r"W (\d+) ([0-9a-f]+) (\d+) ([0-9a-f]+) \| (.*)", line)
        if m:
            d[int(m.group(1))] = (m.group(2), int(m.group(3)), m.group(4), m.group(5))
    return d


def parallel(binary, n, fill, valgrind, idxs=None):
    """returns list of (rc, stdout, stderr) per stripe"""
    idxs = list(range(n)) if idxs is None else idxs
    # contiguous stripes
    k = max(1, NPROC)
    stripes = []
    if idxs == list(range(n)):
        step = (n + k - 1) // k
        stripes = [(lo, min(n, lo + step)) for lo in range(0, n, step)]
    else:
        stripes = [(i, i + 1) for i in idxs]
    with ThreadPoolExecutor(max_workers=k) as ex:
        return list(ex.map(lambda s: (s, run_range(binary, s[0], s[1], fill, valgrind)), stripes))


def family(name):
    return re.sub(r"[0-9]+", "#", name.split(" ctx")[0])[:60].strip()


def valgrind_findings(stderr):
    """yields (workload index, key, text) for each valgrind error block"""
    cur = None
    block = []
    out = []

    def flush():
        if block:
            text = "\n".join(block)
            kind = "uninitialised-value-used" if ("depends on uninitialised" in text or "Use of uninitialised" in text) else (
                "uninitialised-bytes-in-output" if "client check request" in text else ("invalid-access" if "Invalid " in text else "valgrind-error"))
            m = re.search(r"(?:at|by) 0x[0-9A-F]+: ((?:ASAM::CMP|TECMP)::[^( ]+)", text)
            out.append((cur, "valgrind:%s@%s" % (kind, m.group(1) if m else "?"), text[:1500]))
    for line in stderr.splitlines():
        m = re.match(r"BEGIN (\d+)", line)
        if m:
            flush()
            block = []
            cur = int(m.group(1))
            continue
        if line.startswith("=="):
            body = re.sub(r"^==\d+== ?", "", line)
            if body.strip() == "":
                flush()
                block = []
            else:
                block.append(body)
    flush()
    return out


def main():
    prop, tier = sys.argv[1], sys.argv[2]
    run = Run("uninit", prop, tier)
    run.assumptions = ["uninitialised content is modelled by two different fill patterns for fresh stack (-ftrivial-auto-var-init=zero / =pattern) and heap "
                       "(MALLOC_PERTURB_ 0x5A / 0xC3 plus explicit heap churn) memory; definedness is decided by valgrind memcheck on the executed paths",
                       "VERIF_SEED is ignored: nothing is sampled"]
    run.rule = ("deterministic workload list (encoder singles/pairs/second calls over 23 payload prototypes x 5 contexts with and without ids set, round trips through a "
                "decoder, decoder on independently built frames of 57 message kinds under 5 frame types incl. cuts and padding, reassembly variants, TECMP conversion, "
                "payload builders x prior contents, default headers/packets serialised, status tracker); every output byte is digested; environments A and B differ in "
                "every fresh stack/heap byte; the list also runs under valgrind with a definedness check on every output buffer; distinct = distinct output digests")
    a = build("plainA")
    b = build("plainB")
    n = int(subprocess.run([a, "count"], stdout=subprocess.PIPE, text=True).stdout.strip())

    case_file = None
    if "--case-file" in sys.argv:
        case_file = sys.argv[sys.argv.index("--case-file") + 1]
    if case_file:
        idx = int(re.search(r"w=(\d+)", open(case_file).read()).group(1))
        ra = run_range(a, idx, idx + 1, "5a")
        rb = run_range(b, idx, idx + 1, "c3")
        rv = run_range(a, idx, idx + 1, "5a", valgrind=True)
        da, db = parse(ra[1]), parse(rb[1])
        bad = da.get(idx, (None,))[0] != db.get(idx, (None,))[0] or rv[0] != 0 or ra[0] != 0 or rb[0] != 0
        print("REPLAY property=%s workload %d: A=%s B=%s valgrind_rc=%d -> %s" % (prop, idx, da.get(idx), db.get(idx), rv[0], "FAIL" if bad else "PASS"))
        if rv[0] != 0:
            print(rv[2][:3000])
        return 1 if bad else 0

    # oracle 1: A == B
    da, db = {}, {}
    for (s, (rc, out, err)) in parallel(a, n, "5a", False):
        da.update(parse(out))
        if rc != 0:
            run.fail("uninit:workload-crashed", "plainA run of workloads %d..%d exited with %d: %s" % (s[0], s[1], rc, err[-800:]), "w=%d" % s[0])
    for (s, (rc, out, err)) in parallel(b, n, "c3", False):
        db.update(parse(out))
        if rc != 0:
            run.fail("uninit:workload-crashed", "plainB run of workloads %d..%d exited with %d: %s" % (s[0], s[1], rc, err[-800:]), "w=%d" % s[0])
    digests = set()
    total_bytes = 0
    for i in range(n):
        if i not in da or i not in db:
            run.fail("uninit:workload-missing", "workload %d produced no digest line" % i, "w=%d" % i)
            continue
        digests.add(da[i][0])
        total_bytes += da[i][1]
        if da[i][0] != db[i][0] or da[i][1] != db[i][1]:
            run.fail("uninit:output-differs-between-fill-patterns:" + family(da[i][3]),
                     "workload %d '%s': digest %s (%d bytes) with zero-filled stack / 0x5A heap, %s (%d bytes) with pattern-filled stack / 0xC3 heap"
                     % (i, da[i][3], da[i][0], da[i][1], db[i][0], db[i][1]), "w=%d" % i)
    run.rounds.append({"round": "A/B differential over all workloads", "completed": True, "workloads": n, "output_bytes_digested": total_bytes})
    for i in list(range(0, n, max(1, n // 8)))[:8]:
        if i in da:
            run.samples.append("workload %d: %s -> %d output bytes, digest %s" % (i, da[i][3], da[i][1], da[i][0]))

    # oracle 2: valgrind
    if tier == "quick":
        # one workload per distinct output shape (size profile), at most ~500
        seen, idxs = set(), []
        for i in range(n):
            if i in da and (da[i][2], family(da[i][3])) not in seen:
                seen.add((da[i][2], family(da[i][3])))
                idxs.append(i)
    else:
        idxs = list(range(n))
    vg_errors = 0
    checked = 0
    # group idxs into contiguous-ish stripes by running each index range separately but batched per process
    batches = [idxs[i::NPROC] for i in range(NPROC)]

    def run_batch(batch):
        res = []
        for i in batch:
            if run.out_of_time():
                break
            res.append((i, run_range(a, i, i + 1, "5a", valgrind=True, timeout=600)))
        return res
    if tier != "quick":
        # contiguous stripes are much cheaper under valgrind (one start-up per stripe)
        results = [(s[0], r) for (s, r) in parallel(a, n, "5a", True)]
        for lo, (rc, out, err) in results:
            checked += len(parse(out))
            for (wi, key, text) in valgrind_findings(err):
                vg_errors += 1
                run.fail(key, "workload %s: %s" % (wi, text), "w=%s" % wi)
            if rc not in (0, 9):
                run.fail("uninit:workload-crashed-under-valgrind", "exit %d: %s" % (rc, err[-800:]), "w=%d" % lo)
    else:
        with ThreadPoolExecutor(max_workers=NPROC) as ex:
            for res in ex.map(run_batch, batches):
                for i, (rc, out, err) in res:
                    checked += 1
                    for (wi, key, text) in valgrind_findings(err):
                        vg_errors += 1
                        run.fail(key, "workload %s: %s" % (wi, text), "w=%s" % wi)
                    if rc not in (0, 9):
                        run.fail("uninit:workload-crashed-under-valgrind", "workload %d exit %d: %s" % (i, rc, err[-800:]), "w=%d" % i)
    complete = checked >= len(idxs)
    if not complete:
        run.exhaustive = False
    run.rounds.append({"round": "valgrind memcheck with definedness check on every output buffer", "completed": complete, "workloads_selected": len(idxs),
                       "workloads_checked": checked, "valgrind_errors": vg_errors})
    run.cov["workloads"] = n
    run.cov["valgrind_workloads"] = checked
    run.cov["output_bytes_digested"] = total_bytes
    return run.finish(evaluations=2 * n + checked, distinct=len(digests), states=n, transitions=2 * n + checked, traces=n)


if __name__ == "__main__":
    sys.exit(main())
