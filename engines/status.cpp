// Engine `status`: C16 — the status tracker equals a per-device, per-interface latest-message map.
// Unmerged tree of copied real Status objects + BFS merged on the full observable state.
#include <asam_cmp/capture_module_payload.h>
#include <asam_cmp/interface_payload.h>
#include <asam_cmp/status.h>

#include <cstdarg>

#include "engines/libobs.h"
#define MC_ALLOCFAULT_IMPL
#include "mc/allocfault.h"
#include "mc/harness.h"
#include "ref/status_map.h"

using namespace ASAM::CMP;
using mc::W;

static std::string fmt(const char* f, ...)
{
    char b[2048];
    va_list ap;
    va_start(ap, f);
    vsnprintf(b, sizeof b, f, ap);
    va_end(ap);
    return b;
}

static const uint16_t kDev[3] = {0, 0x0102, 0xFFFF};          // 0 (the id of a default-constructed packet: what a 'not set' shortcut compares with), a two-byte id, all ones
static const uint32_t kIf[2] = {0, 0x8000000Au};             // 0 (what a zeroed payload reads as) and an id with the sign bit set

// packet ids: cm: 100 + d*10 + v ; if: 1000 + d*100 + i*10 + v ; data: 5000 + d
// Capture-module status variants: 0 base; 1 another payload (smaller uptime, other serial) AND another header; 2 the payload of
// variant 0 byte for byte with another header only (timestamp, stream id, flags, vendor id) - one input per shortcut: a change
// of the payload alone, of the header alone, and of both
static Packet cmPacket(int d, int v3)
{
    const int v = v3 == 2 ? 0 : v3;
    CaptureModulePayload p;
    // the two variants disagree about "later": the second has the greater header timestamp and the SMALLER uptime (as after a restart of
    // the device), so going from one to the other either way moves the two clocks in opposite directions - the tracker keeps the
    // latest message by arrival, whatever the contents say
    p.setUptime(0x1000 + d * 16 + (1 - v));
    p.setData(fmt("dev%d", d), fmt("sn%d%c", d, 'a' + v), "hw", v ? "sw-b" : "sw-a", {(uint8_t) d, (uint8_t) v});
    Packet k;
    k.setPayload(p);
    k.setDeviceId(kDev[d]);
    k.setStreamId((uint8_t) (v + 1));
    k.setTimestamp(100 + d * 10 + v3);
    if (v3 == 2)
    {
        k.setStreamId(9);
        k.setCommonFlags(0x02);
        k.setVendorId(0x0203);
        return k;
    }
    if (v)
        k.setInterfaceId(kIf[1]);   // an attribute without meaning for a capture-module status message
    // the second variant looks like what a decoder hands over for a status message that arrived in segments: the reassembled
    // packet keeps the first segment's common flags (segmentation bits 0x04), here with overflow and recalc, another version,
    // vendor id and counter - it is a status message like any other
    if (v)
    {
        k.setCommonFlags(0x25);
        k.setVersion(2);
        k.setVendorId(0x8001);
        k.setSequenceCounter(0xFFFF);
    }
    return k;
}
static Packet ifPacket(int d, int i, int v)
{
    InterfacePayload p;
    p.setInterfaceId(kIf[i]);
    // the two variants of an interface status message carry the SAME payload bytes and differ in header fields only (timestamp, stream
    // id, flags, version, vendor id, counter, the header's interface-id attribute): "latest" means the whole packet, not its payload
    (void) v;
    p.setMsgTotalRx(1000 + d * 100 + i * 10);
    uint8_t s[2] = {(uint8_t) i, (uint8_t) 7};
    p.setData(s, 2, nullptr, 0);
    Packet k;
    k.setPayload(p);
    k.setDeviceId(kDev[d]);
    k.setStreamId((uint8_t) (i + 1));
    k.setTimestamp(1000 + d * 100 + i * 10 + v);
    // the packet's own interface-id attribute (a header field data messages use; a status message carries its interface id in the
    // payload) is set to the OTHER interface's id in one variant and left 0 in the other: it means nothing to the tracker
    if (v)
        k.setInterfaceId(kIf[1 - i] ? kIf[1 - i] : 0x12345);
    if (v)
    {
        k.setCommonFlags(0x2A);   // intermediary-segment bits 0x08, overflow, insync
        k.setVersion(2);
        k.setVendorId(0x0102);
        k.setSequenceCounter(0x8000);
    }
    return k;
}
// a status message of ANOTHER kind (configuration status 0x0303 / vendor status 0x03FF) whose first four payload bytes
// read as an interface id that is in use: it must change nothing
static Packet otherStatusPacket(int d, int kind)
{
    Packet k;
    uint8_t b[44];
    memset(b, 0, sizeof b);
    b[0] = (uint8_t) (kIf[0] >> 24); b[1] = (uint8_t) (kIf[0] >> 16); b[2] = (uint8_t) (kIf[0] >> 8); b[3] = (uint8_t) kIf[0];
    b[29] = 1;
    k.setPayload(Payload(PayloadType(kind ? PayloadType::vendorStatMsg : PayloadType::confStatMsg), b, sizeof b));
    k.setDeviceId(kDev[d]);
    k.setTimestamp(7000 + d * 2 + kind);
    return k;
}
static Packet dataPacket(int d)
{
    Packet k;
    uint8_t b[3] = {1, 2, 3};
    k.setPayload(Payload(PayloadType(CmpHeader::MessageType::data, 0xFE), b, 3));
    k.setDeviceId(kDev[d]);
    k.setTimestamp(5000 + d);
    return k;
}

struct Op
{
    char kind;   // 'C' cm update, 'I' if update, 'D' data update, 'R' remove device, 'r' remove interface, 'X' clear
    int d, i, v;
};
static std::vector<Op> alphabet()
{
    std::vector<Op> a;
    for (int d = 0; d < 3; ++d)
        for (int v = 0; v < 3; ++v)
            a.push_back({'C', d, 0, v});
    for (int d = 0; d < 3; ++d)
        for (int i = 0; i < 2; ++i)
            for (int v = 0; v < 2; ++v)
                a.push_back({'I', d, i, v});
    for (int d = 0; d < 3; ++d)
        a.push_back({'D', d, 0, 0});
    for (int d = 0; d < 3; ++d)
        a.push_back({'O', d, 0, d % 2});   // other status kinds: conf status for two devices, vendor status for one
    for (int d = 0; d < 3; ++d)
        a.push_back({'R', d, 0, 0});
    for (int d = 0; d < 3; ++d)
        for (int i = 0; i < 2; ++i)
            a.push_back({'r', d, i, 0});
    // refresh: update() is handed a packet the tracker ITSELF stores (a reference into its own storage) - the device's capture-module
    // packet, or an interface packet of it. It is that device's latest message already, so nothing changes.
    for (int d = 0; d < 3; ++d)
        a.push_back({'A', d, 0, 0});
    for (int d = 0; d < 2; ++d)
        for (int i = 0; i < 2; ++i)
            a.push_back({'a', d, i, 0});
    a.push_back({'X', 0, 0, 0});
    return a;
}
static const std::vector<Op> kOps = alphabet();
static std::string opName(const Op& o)
{
    switch (o.kind)
    {
        case 'C': return fmt("cm(d%d,%c)", kDev[o.d], 'a' + o.v);
        case 'I': return fmt("if(d%d,i%u,%c)", kDev[o.d], kIf[o.i], 'a' + o.v);
        case 'D': return fmt("data(d%d)", kDev[o.d]);
        case 'O': return fmt("%s-status(d%d)", o.v ? "vendor" : "conf", kDev[o.d]);
        case 'A': return fmt("refresh-own-cm(d%d)", kDev[o.d]);
        case 'a': return fmt("refresh-own-if(d%d,i%u)", kDev[o.d], kIf[o.i]);
        case 'R': return fmt("removeDevice(d%d)", kDev[o.d]);
        case 'r': return fmt("removeInterface(d%d,i%u)", kDev[o.d], kIf[o.i]);
        default: return "clear";
    }
}

struct Sys
{
    Status s;
    ref::StatusModel m;
};

struct Pool
{
    Packet cm[3][3], ifp[3][2][2], data[3];
    obs::PObs ocm[3][3], oif[3][2][2];
    Pool()
    {
        for (int d = 0; d < 3; ++d)
        {
            data[d] = dataPacket(d);
            cm[d][2] = cmPacket(d, 2);
            ocm[d][2] = obs::observe(cm[d][2]);
            for (int v = 0; v < 2; ++v)
            {
                cm[d][v] = cmPacket(d, v);
                ocm[d][v] = obs::observe(cm[d][v]);
                for (int i = 0; i < 2; ++i)
                {
                    ifp[d][i][v] = ifPacket(d, i, v);
                    oif[d][i][v] = obs::observe(ifp[d][i][v]);
                }
            }
        }
    }
};
static const Pool& pool()
{
    static Pool p;
    return p;
}

static bool sameObs(const obs::PObs& a, const obs::PObs& b)
{
    return obs::digest(a) == obs::digest(b) && a.bytes == b.bytes;
}

static void apply(Sys& s, const Op& o)
{
    const Pool& P = pool();
    switch (o.kind)
    {
        case 'C': s.s.update(P.cm[o.d][o.v]); s.m.updateCm(kDev[o.d], 100 + o.d * 10 + o.v); break;
        case 'I': s.s.update(P.ifp[o.d][o.i][o.v]); s.m.updateIf(kDev[o.d], kIf[o.i], 1000 + o.d * 100 + o.i * 10 + o.v); break;
        case 'D': s.s.update(P.data[o.d]); break;
        case 'O': s.s.update(otherStatusPacket(o.d, o.v)); break;
        case 'A':
        {
            size_t idx = s.s.getIndexByDeviceId(kDev[o.d]);
            if (idx < s.s.getDeviceStatusCount())
                s.s.update(s.s.getDeviceStatus(idx).getPacket());
            break;
        }
        case 'a':
        {
            size_t idx = s.s.getIndexByDeviceId(kDev[o.d]);
            if (idx < s.s.getDeviceStatusCount())
            {
                DeviceStatus& ds = s.s.getDeviceStatus(idx);
                size_t ii = ds.getIndexByInterfaceId(kIf[o.i]);
                if (ii < ds.getInterfaceStatusCount())
                    s.s.update(ds.getInterfaceStatus(ii).getPacket());
            }
            break;
        }
        case 'R': s.s.removeDeviceById(kDev[o.d]); s.m.removeDevice(kDev[o.d]); break;
        case 'r':
        {
            size_t idx = s.s.getIndexByDeviceId(kDev[o.d]);
            if (idx < s.s.getDeviceStatusCount())
                s.s.getDeviceStatus(idx).removeInterfaceById(kIf[o.i]);
            s.m.removeInterface(kDev[o.d], kIf[o.i]);
            break;
        }
        default: s.s.clear(); s.m.clear(); break;
    }
}

static void judge(W& w, const Sys& s, const std::string& where)
{
    const Pool& P = pool();
    const Status& st = s.s;
    size_t n = st.getDeviceStatusCount();
    if (n != s.m.devices.size())
        w.fail("status:device-count", where + fmt(": %zu device entries, %zu devices have sent a capture-module status since they were last removed", n, s.m.devices.size()));
    for (int d = 0; d < 3; ++d)
    {
        size_t idx = st.getIndexByDeviceId(kDev[d]);
        auto it = s.m.devices.find(kDev[d]);
        if (it == s.m.devices.end())
        {
            if (idx != n)
                w.fail("status:lookup-of-absent-device", where + fmt(": getIndexByDeviceId(%u) = %zu, count = %zu, the device has no entry", kDev[d], idx, n));
            continue;
        }
        if (idx >= n)
        {
            w.fail("status:device-entry-missing", where + fmt(": device %u has sent a capture-module status but has no entry (index %zu, count %zu)", kDev[d], idx, n));
            continue;
        }
        const DeviceStatus& ds = st.getDeviceStatus(idx);
        int v = it->second.cmId % 10;
        obs::PObs got = obs::observe(ds.getPacket());
        if (got.dev != kDev[d])
            w.fail("status:lookup-returns-other-device", where + fmt(": index for device %u holds a packet of device %u", kDev[d], got.dev));
        else if (!sameObs(got, P.ocm[d][v]))
            w.fail("status:device-entry-is-not-the-latest-packet", where + fmt(": device %u stores ", kDev[d]) + obs::show(got) + " latest is " + obs::show(P.ocm[d][v]));
        size_t ni = ds.getInterfaceStatusCount();
        if (ni != it->second.interfaces.size())
            w.fail("status:interface-count", where + fmt(": device %u has %zu interface entries, %zu interfaces were seen", kDev[d], ni, it->second.interfaces.size()));
        for (int i = 0; i < 2; ++i)
        {
            size_t ii = ds.getIndexByInterfaceId(kIf[i]);
            auto jt = it->second.interfaces.find(kIf[i]);
            if (jt == it->second.interfaces.end())
            {
                if (ii != ni)
                    w.fail("status:lookup-of-absent-interface", where + fmt(": device %u getIndexByInterfaceId(%u) = %zu, count = %zu", kDev[d], kIf[i], ii, ni));
                continue;
            }
            if (ii >= ni)
            {
                w.fail("status:interface-entry-missing", where + fmt(": device %u interface %u has no entry", kDev[d], kIf[i]));
                continue;
            }
            const InterfaceStatus& is = ds.getInterfaceStatus(ii);
            int iv = jt->second % 10;
            obs::PObs gi = obs::observe(is.getPacket());
            if (is.getInterfaceId() != kIf[i])
                w.fail("status:lookup-returns-other-interface", where + fmt(": entry found for interface %u reports id %u", kIf[i], is.getInterfaceId()));
            if (!sameObs(gi, P.oif[d][i][iv]))
                w.fail("status:interface-entry-is-not-the-latest-packet", where + fmt(": device %u interface %u stores ", kDev[d], kIf[i]) + obs::show(gi) + " latest is " + obs::show(P.oif[d][i][iv]));
        }
    }
    // the non-const accessors must hand out the very same objects as the const ones
    {
        Status& ms = const_cast<Status&>(st);
        for (size_t i = 0; i < n; ++i)
        {
            DeviceStatus& md = ms.getDeviceStatus(i);
            const DeviceStatus& cd = st.getDeviceStatus(i);
            if (&md != &cd || &md.getPacket() != &cd.getPacket())
                w.fail("status:non-const-accessor-returns-other-object", where + fmt(": device entry %zu", i));
            for (size_t j = 0; j < cd.getInterfaceStatusCount(); ++j)
                if (&md.getInterfaceStatus(j) != &cd.getInterfaceStatus(j) || &md.getInterfaceStatus(j).getPacket() != &cd.getInterfaceStatus(j).getPacket())
                    w.fail("status:non-const-accessor-returns-other-object", where + fmt(": device entry %zu interface entry %zu", i, j));
        }
    }
    // an id that never occurs
    if (st.getIndexByDeviceId(0x7777) != n)
        w.fail("status:lookup-of-absent-device", where + ": unknown device id does not map to the element count");
}

// full observable state (ordered) as hash
static uint64_t stateHash(const Sys& s, uint64_t seed)
{
    uint64_t h = seed;
    const Status& st = s.s;
    for (size_t i = 0; i < st.getDeviceStatusCount(); ++i)
    {
        const DeviceStatus& ds = st.getDeviceStatus(i);
        h = mc::mix(h, obs::digest(obs::observe(ds.getPacket())));
        for (size_t j = 0; j < ds.getInterfaceStatusCount(); ++j)
        {
            h = mc::mix(h, ds.getInterfaceStatus(j).getInterfaceId());
            h = mc::mix(h, obs::digest(obs::observe(ds.getInterfaceStatus(j).getPacket())));
        }
        h = mc::mix(h, 0xD1);
    }
    for (auto& d : s.m.devices)
    {
        h = mc::mix(h, d.first * 131 + d.second.cmId);
        for (auto& i : d.second.interfaces)
            h = mc::mix(h, i.first * 137 + i.second);
    }
    return h;
}

static std::string showPath(const std::vector<int>& p)
{
    std::string s = "s=";
    for (size_t i = 0; i < p.size(); ++i)
        s += (i ? "," : "") + std::to_string(p[i]);
    s += ";names=";
    for (size_t i = 0; i < p.size(); ++i)
        s += (i ? " " : "") + opName(kOps[p[i]]);
    return s;
}

static std::vector<int> fullAlphabet()
{
    std::vector<int> a;
    for (int k = 0; k < (int) kOps.size(); ++k)
        a.push_back(k);
    return a;
}

// A small sub-alphabet for a DEEPER unmerged tree: state that the observable dump cannot show (a remembered index, a cached
// lookup) is merged away by the BFS and needs longer histories than the full tree reaches, e.g. update, update, remove (which
// moves an entry), append, update. 13 operations: cm status of each device, one interface status of each device, a second
// interface and a second message variant for the first device, every removeDevice, one removeInterface, clear.
static std::vector<int> sharpAlphabet()
{
    std::vector<int> a;
    for (int k = 0; k < (int) kOps.size(); ++k)
    {
        const Op& o = kOps[k];
        bool in = false;
        switch (o.kind)
        {
            case 'C': in = o.v == 0; break;
            case 'I': in = (o.i == 0 && o.v == 0) || (o.d == 0 && (o.i == 0 || o.v == 0)); break;
            // (refresh operations: in the full-alphabet tree only, which reaches the shortest manifesting history cm cm refresh)
            case 'R': in = true; break;
            case 'r': in = o.d == 0 && o.i == 0; break;
            case 'X': in = true; break;
            default: break;
        }
        if (in)
            a.push_back(k);
    }
    return a;
}

// look: every lookup and getter is exercised after EVERY operation of the history, not only at its end (an observation is an
// operation too: whatever a lookup remembers must not outlive the next update or removal)
static void lookAround(const Sys& s)
{
    W q;
    q.single = true;
    judge(q, s, "");
}
static void dfs(W& w, const Sys& s, std::vector<int>& path, int target, const std::vector<int>& alpha, bool look = false)
{
    for (int k : alpha)
    {
        path.push_back(k);
        if ((int) path.size() == target)
        {
            auto desc = [&] { return showPath(path) + (look ? ";look=1" : ""); };
            if (w.begin_case(desc))
            {
                Sys n = s;   // copy of the real Status object
                apply(n, kOps[k]);
                judge(w, n, fmt("after step %zu (%s)", path.size(), opName(kOps[k]).c_str()));
                w.add(mc::C_TRANS, 1);
                w.add(mc::C_STATES, 1);
                w.add(mc::C_TRACES, 1);
                w.outcome(stateHash(n, 5));
            }
        }
        else
        {
            Sys n = s;
            apply(n, kOps[k]);
            if (look)
                lookAround(n);
            dfs(w, n, path, target, alpha, look);
        }
        path.pop_back();
    }
}

static bool abortedUpdate(W& w, const std::vector<int>& hist, int fop, int n, int after, bool judgeNow);
static void longHistory(W& w, int o);
static void replay(W& w, const std::string& cs)
{
    auto kv = mc::kv_parse(cs);
    if (kv.count("long"))
    {
        longHistory(w, atoi(kv["long"].c_str()));
        return;
    }
    if (kv.count("fop"))
    {
        std::vector<int> hist;
        for (auto& t : mc::split(kv["s"], ','))
            if (!t.empty())
                hist.push_back(atoi(t.c_str()));
        abortedUpdate(w, hist, atoi(kv["fop"].c_str()), atoi(kv["n"].c_str()), atoi(kv["after"].c_str()), true);
        return;
    }
    Sys s;
    int i = 0;
    for (auto& t : mc::split(kv["s"], ','))
    {
        int k = atoi(t.c_str());
        if (k < 0 || k >= (int) kOps.size())
            continue;
        apply(s, kOps[k]);
        judge(w, s, fmt("after step %d (%s)", ++i, opName(kOps[k]).c_str()));
    }
}

// Aborted update: history (operations of the sharp sub-alphabet), then update operation `fop` in which allocation number n fails, then
// the same update once more without a fault, then operation `after`. An aborted update either counts or does not count as "the
// device has sent the message": directly behind it the tracker must equal the latest-message map of one of the two readings (no
// entry for a device or interface that sent nothing, no entry without its packet, no second entry); after the repetition it must
// equal the map with the message; then the exploration goes on as usual. Returns false if the call makes fewer than n allocations.
static bool abortedUpdate(W& w, const std::vector<int>& hist, int fop, int n, int after, bool judgeNow)
{
    const Pool& P = pool();
    Sys s;
    for (int k : hist)
        apply(s, kOps[k]);
    const Op& o = kOps[fop];
    const Packet& pk = o.kind == 'C' ? P.cm[o.d][o.v] : P.ifp[o.d][o.i][o.v];
    bool thrown = false;
    mc::af::arm(n);
    try
    {
        s.s.update(pk);
    }
    catch (const std::bad_alloc&)
    {
        thrown = true;
    }
    const bool fired = mc::af::disarm();
    if (!fired)
        return false;
    if (!judgeNow)
        return true;
    w.add(mc::C_TRANS, 3);
    if (!thrown)
        w.fail("aborted-call:allocation-failure-swallowed", fmt("allocation %d of %s failed, update() returned normally", n, opName(o).c_str()));
    const std::string where = fmt("after %s aborted by the failure of its allocation %d", opName(o).c_str(), n);
    {
        Sys post = s;
        if (o.kind == 'C')
            post.m.updateCm(kDev[o.d], 100 + o.d * 10 + o.v);
        else
            post.m.updateIf(kDev[o.d], kIf[o.i], 1000 + o.d * 100 + o.i * 10 + o.v);
        W a, b;
        a.single = b.single = true;
        judge(a, s, where);
        if (!a.single_fails.empty())
        {
            judge(b, post, where);
            if (!b.single_fails.empty())
                w.fail("aborted-update:" + a.single_fails[0].key, where + ": the tracker equals neither the map without nor the map with the message; against the map without it: " + a.single_fails[0].desc);
            else
                s.m = post.m;
        }
    }
    apply(s, o);   // the caller repeats the update
    judge(w, s, where + fmt(" and repeated"));
    apply(s, kOps[after]);
    judge(w, s, where + fmt(", repeated, then %s", opName(kOps[after]).c_str()));
    w.outcome(stateHash(s, 9));
    return true;
}

static void longHistory(W& w, int o)
{
    const int nops = (int) kOps.size();
    Sys s;
    std::vector<int> cyc;
    for (int k = 0; k < nops; ++k)
        if (kOps[k].kind == 'C' || kOps[k].kind == 'I' || (o >= 2 && (kOps[k].kind == 'D' || kOps[k].kind == 'O')))
            cyc.push_back(k);
    uint64_t next = 1;
    for (uint64_t i = 0; i < 131074; ++i)
    {
        apply(s, kOps[cyc[(i * (o % 2 ? 7 : 1)) % cyc.size()]]);
        if (o % 2)
            lookAround(s);
        if (i + 2 >= next && i <= next + 1)
            judge(w, s, fmt("after %llu updates", (unsigned long long) i + 1));
        if (i > next + 1)
            next *= 2;
        w.add(mc::C_TRANS, 1);
    }
    for (int k = 0; k < nops; ++k)
        if (kOps[k].kind == 'r' || kOps[k].kind == 'R')
        {
            apply(s, kOps[k]);
            judge(w, s, "removals after the long history");
        }
    w.outcome(stateHash(s, 13));
}

struct BfsRec
{
    uint64_t h1, h2;
    uint8_t len;
    uint8_t hist[15];
};
struct BfsShared
{
    std::atomic<uint64_t> n;
    uint64_t cap;
    BfsRec recs[1];
};

static void runBfs(mc::Run& run, int maxDepth)
{
    const uint64_t cap = 4u << 20;
    size_t sz = sizeof(BfsShared) + cap * sizeof(BfsRec);
    auto sh = static_cast<BfsShared*>(mmap(nullptr, sz, PROT_READ | PROT_WRITE, MAP_SHARED | MAP_ANONYMOUS | MAP_NORESERVE, -1, 0));
    new (&sh->n) std::atomic<uint64_t>(0);
    sh->cap = cap;
    std::set<std::pair<uint64_t, uint64_t>> seen;
    std::vector<BfsRec> frontier;
    {
        Sys s0;
        BfsRec r{};
        r.h1 = stateHash(s0, 1); r.h2 = stateHash(s0, 2);
        frontier.push_back(r);
        seen.insert({r.h1, r.h2});
    }
    uint64_t total = 1;
    for (int depth = 1; depth <= maxDepth && !frontier.empty(); ++depth)
    {
        sh->n.store(0);
        const size_t chunk = 32;
        uint64_t nout = (frontier.size() + chunk - 1) / chunk;
        bool done = run.round(fmt("BFS level %d: %zu merged states x %zu operations", depth, frontier.size(), kOps.size()), nout, [&](W& w, uint64_t o) {
            std::set<std::pair<uint64_t, uint64_t>> local;
            for (size_t fi = o * chunk; fi < std::min(frontier.size(), (o + 1) * chunk); ++fi)
            {
                const BfsRec& fr = frontier[fi];
                Sys base;
                for (int i = 0; i < fr.len; ++i)
                    apply(base, kOps[fr.hist[i]]);
                for (int k = 0; k < (int) kOps.size(); ++k)
                {
                    std::vector<int> path(fr.hist, fr.hist + fr.len);
                    path.push_back(k);
                    auto desc = [&] { return showPath(path); };
                    if (!w.begin_case(desc))
                        continue;
                    Sys n = base;
                    apply(n, kOps[k]);
                    judge(w, n, fmt("after step %zu (%s)", path.size(), opName(kOps[k]).c_str()));
                    w.add(mc::C_TRANS, 1);
                    uint64_t h1 = stateHash(n, 1), h2 = stateHash(n, 2);
                    w.outcome(h1);
                    if (seen.count({h1, h2}) || local.count({h1, h2}))
                        continue;
                    local.insert({h1, h2});
                    uint64_t idx = sh->n.fetch_add(1);
                    if (idx < sh->cap)
                    {
                        BfsRec& r = sh->recs[idx];
                        r.h1 = h1; r.h2 = h2; r.len = (uint8_t) path.size();
                        for (size_t i = 0; i < path.size(); ++i)
                            r.hist[i] = (uint8_t) path[i];
                    }
                }
            }
        });
        uint64_t n = std::min<uint64_t>(sh->n.load(), sh->cap);
        if (sh->n.load() > sh->cap)
            run.exhaustive = false;
        std::vector<BfsRec> recs(sh->recs, sh->recs + n);
        std::sort(recs.begin(), recs.end(), [](const BfsRec& a, const BfsRec& b) {
            if (a.h1 != b.h1) return a.h1 < b.h1;
            if (a.h2 != b.h2) return a.h2 < b.h2;
            return memcmp(a.hist, b.hist, a.len) < 0;
        });
        frontier.clear();
        for (auto& r : recs)
            if (seen.insert({r.h1, r.h2}).second)
                frontier.push_back(r);
        total += frontier.size();
        if (!done)
            break;
    }
    run.c[mc::C_STATES] += total;
    run.extra.push_back({"bfs_merged_states", mc::Json::num(total)});
    run.extra.push_back({"bfs_frontier_empty_at_end", mc::Json::boolean(frontier.empty())});
    munmap(sh, sz);
}

int main(int argc, char** argv)
{
    mc::Options opt = mc::parse_args(argc, argv, "status");
    mc::Run run(opt);
    if (opt.prop != "C16")
    {
        fprintf(stderr, "engine status serves C16 only\n");
        return 2;
    }
    const bool thorough = opt.tier == "thorough";
    run.assumptions = {"3 device ids x 2 interface ids x 2 message variants (variants differ in timestamp, stream id and payload bytes so that 'latest' is observable)",
                       "vector order of the entries is not constrained (the property does not), only which entries exist and what they hold",
                       "VERIF_SEED is ignored: nothing is sampled"};
    run.rule = fmt("%zu-operation alphabet {update(cm status) x6, update(interface status) x12, update(data packet) x3, update(status message of another kind) x3, removeDeviceById x3, removeInterfaceById x6, clear}: "
                   "unmerged tree of copied real Status objects (every prefix judged) + BFS merged on the full ordered observable state; after every operation the object is "
                   "compared with a latest-message map through counts, lookups by id and all getters/bytes of every stored packet; distinct = distinct observable states",
                   kOps.size());
    run.replay_case = replay;
    if (!opt.case_file.empty())
    {
        std::ifstream in(opt.case_file);
        std::string cs;
        std::getline(in, cs);
        return run.run_single(cs);
    }
    const int treeDepth = thorough ? 5 : 4;
    const int nops = (int) kOps.size();
    const std::vector<int> full = fullAlphabet();
    for (int d = 1; d <= treeDepth; ++d)
    {
        const int plen = std::min(2, d - 1);
        uint64_t nout = plen == 0 ? 1 : (plen == 1 ? nops : (uint64_t) nops * nops);
        run.round(fmt("unmerged tree: all operation sequences of length %d", d), nout, [&, d, plen](W& w, uint64_t o) {
            Sys s;
            std::vector<int> path;
            if (plen == 2)
                path = {(int) (o / nops), (int) (o % nops)};
            else if (plen == 1)
                path = {(int) o};
            for (int k : path)
                apply(s, kOps[k]);
            dfs(w, s, path, d, full);
        });
        if (run.out_of_time())
            break;
    }
    // deeper unmerged tree over the sharp sub-alphabet (lengths above the full tree's depth only)
    {
        const std::vector<int> sharp = sharpAlphabet();
        const int ns = (int) sharp.size();
        const int sharpDepth = thorough ? 8 : 6;
        run.extra.push_back({"sharp_alphabet_size", mc::Json::num(ns)});
        run.extra.push_back({"sharp_tree_depth", mc::Json::num(sharpDepth)});
        for (int d = treeDepth + 1; d <= sharpDepth; ++d)
        {
            uint64_t nout = (uint64_t) ns * ns * ns;
            run.round(fmt("unmerged tree over the %d-operation sharp sub-alphabet: all sequences of length %d", ns, d), nout, [&, d](W& w, uint64_t o) {
                Sys s;
                std::vector<int> path = {sharp[o / ((uint64_t) ns * ns)], sharp[(o / ns) % ns], sharp[o % ns]};
                for (int k : path)
                    apply(s, kOps[k]);
                dfs(w, s, path, d, sharp);
            });
            if (run.out_of_time())
                break;
            if (d <= (thorough ? 7 : 6))
                run.round(fmt("the same with every lookup and getter exercised after every operation: all sequences of length %d", d), nout, [&, d](W& w, uint64_t o) {
                    Sys s;
                    std::vector<int> path = {sharp[o / ((uint64_t) ns * ns)], sharp[(o / ns) % ns], sharp[o % ns]};
                    for (int k : path)
                    {
                        apply(s, kOps[k]);
                        lookAround(s);
                    }
                    dfs(w, s, path, d, sharp, true);
                });
            if (run.out_of_time())
                break;
        }
    }
    // long histories: whatever the tracker counts on the side (updates, lookups, generations) passes every power of two up to 2^17
    run.round("long histories: N updates and lookups cycling through all devices / interfaces / variants, judged at N around every power of two up to 131073, then removals", 4, [&](W& w, uint64_t o) {
        auto desc = [&] { return fmt("long=%d", (int) o); };
        if (!w.begin_case(desc))
            return;
        longHistory(w, (int) o);
        w.add(mc::C_TRACES, 1);
    });
    // fault injection at every allocation of every update (memory exhaustion inside the tracker)
    {
        const std::vector<int> sharp = sharpAlphabet();
        const int ns = (int) sharp.size();
        std::vector<int> upd;
        for (int k = 0; k < nops; ++k)
            if (kOps[k].kind == 'C' || kOps[k].kind == 'I')
                upd.push_back(k);
        const int hd = thorough ? 3 : 2;
        uint64_t nh = 1;
        for (int i = 0; i < hd; ++i)
            nh *= (uint64_t) ns + 1;   // digit ns = "no operation": all histories of length <= hd
        run.round(fmt("update calls aborted at their n-th allocation (every n): all histories of <= %d operations of the sharp sub-alphabet x %zu updates x every allocation x every next operation", hd, upd.size()),
                  nh * upd.size(), [&, sharp, upd, ns, hd](W& w, uint64_t oidx) {
                      uint64_t hcode = oidx / upd.size();
                      int fop = upd[oidx % upd.size()];
                      std::vector<int> hist;
                      bool skip = false, ended = false;
                      for (int i = 0; i < hd; ++i)
                      {
                          int dgt = (int) (hcode % (ns + 1));
                          hcode /= (ns + 1);
                          if (dgt == ns)
                              ended = true;
                          else if (ended)
                              skip = true;   // canonical form: "no operation" digits only at the end
                          else
                              hist.push_back(sharp[dgt]);
                      }
                      if (skip)
                          return;
                      std::string hs;
                      for (int k : hist)
                          hs += (hs.empty() ? "" : ",") + std::to_string(k);
                      for (int n = 1; n < 100; ++n)
                      {
                          W probe;
                          probe.single = true;
                          if (!abortedUpdate(probe, hist, fop, n, 0, false))
                              break;
                          for (int after : sharp)
                          {
                              auto desc = [&] { return fmt("s=%s;fop=%d;n=%d;after=%d;names=%s failing at allocation %d", hs.c_str(), fop, n, after, opName(kOps[fop]).c_str(), n); };
                              if (!w.begin_case(desc))
                                  continue;
                              abortedUpdate(w, hist, fop, n, after, true);
                              w.add(mc::C_TRACES, 1);
                              w.add(mc::C_STATES, 3);
                          }
                      }
                  });
    }
    runBfs(run, 16);   // runs until the frontier is empty: every reachable state of the alphabet is visited
    return run.finish();
}
