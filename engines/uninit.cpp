// Engine `uninit` (C20): a deterministic list of workloads; every output byte goes into a per-workload
// digest (and through a valgrind definedness check when run under memcheck). The driver
// (engines/uninit_driver.py) runs the list under two builds / heap fill patterns and compares.
#include <asam_cmp/encoder.h>
#include <asam_cmp/status.h>
#include <asam_cmp/tecmp_can_payload.h>
#include <asam_cmp/tecmp_decoder.h>
#include <asam_cmp/tecmp_interface_payload.h>
#include <asam_cmp/tecmp_lin_payload.h>
#include <valgrind/memcheck.h>

#include "engines/wire_common.h"

namespace {

struct Out
{
    uint64_t h = 1469598103934665603ull;
    uint64_t n = 0;
    std::string shape;
    void bytes(const void* p, size_t len)
    {
        if (len == 0)
            return;
        VALGRIND_CHECK_MEM_IS_DEFINED(p, len);
        h = mc::fnv(p, len, h);
        n += len;
    }
    template <class T>
    void val(T v)
    {
        bytes(&v, sizeof v);
    }
    void vec(const Bytes& b)
    {
        val<uint64_t>(b.size());
        bytes(b.data(), b.size());
        shape += std::to_string(b.size()) + ",";
    }
};

W& dummyW()
{
    static W w;
    w.single = true;
    w.single_fails.clear();
    return w;
}

void outPacket(Out& o, const Packet& p)
{
    obs::PObs x = obs::observe(p);
    o.val(x.version); o.val(x.dev); o.val(x.stream); o.val(x.seq); o.val(x.ts); o.val(x.ifid); o.val(x.vid); o.val(x.flags); o.val(x.segType); o.val(x.msgType);
    o.val(x.ptype); o.val(x.fullType); o.val<uint8_t>(x.valid); o.val(x.len);
    o.vec(x.bytes);
    if (x.valid)
        o.val(sweepTyped(dummyW(), p.getPayload(), x.fullType));
    // destination buffers are pre-filled with the environment's fill pattern: a serialiser that leaves a byte unwritten
    // shows up in the A/B differential (and under valgrind the fill is marked undefined)
    uint8_t hdr[8], mh[16];
#if defined(VERIF_CFG_PLAINB)
    memset(hdr, 0xC3, sizeof hdr);
    memset(mh, 0xC3, sizeof mh);
#else
    memset(hdr, 0x5A, sizeof hdr);
    memset(mh, 0x5A, sizeof mh);
#endif
    VALGRIND_MAKE_MEM_UNDEFINED(hdr, sizeof hdr);
    VALGRIND_MAKE_MEM_UNDEFINED(mh, sizeof mh);
    p.getRawCmpHeader(hdr);
    p.getRawMessageHeader(mh);
    o.bytes(hdr, 8);
    o.bytes(mh, 16);
}

Bytes pt(size_t n, unsigned tag) { return patt(n, tag); }

// prototypes built through the library builders
Payload proto(int idx)
{
    Bytes d = pt(2000, (unsigned) idx + 3);
    switch (idx)
    {
        case 0: { CanPayload p; p.setId(0x123); p.setData(d.data(), 0); return p; }
        case 1: { CanPayload p; p.setId(0x1ABCDEF0 & 0x1FFFFFFF); p.setIde(true); p.setData(d.data(), 8); p.setCrc(0x1234); return p; }
        case 2: { CanFdPayload p; p.setId(0x55); p.setData(d.data(), 12); p.setSbc(5); return p; }
        case 3: { CanFdPayload p; p.setData(d.data(), 64); return p; }
        case 4: { LinPayload p; p.setLinId(0x21); p.setData(d.data(), 0); return p; }
        case 5: { LinPayload p; p.setLinId(0x3F); p.setChecksum(0xA5); p.setData(d.data(), 8); return p; }
        case 6: { AnalogPayload p; p.setSampleInterval(0.5f); p.setData(d.data(), 8); return p; }
        case 7: { AnalogPayload p; p.setSampleDt(AnalogPayload::SampleDt::aInt32); p.setData(d.data(), 12); return p; }
        case 8: { EthernetPayload p; p.setData(d.data(), 0); return p; }
        case 9: { EthernetPayload p; p.setData(d.data(), 46); return p; }
        case 10: { EthernetPayload p; p.setData(d.data(), 1500); return p; }
        case 11: { CaptureModulePayload p; p.setData("dev", "sn1", "hw", "sw1", {}); return p; }
        case 12: { CaptureModulePayload p; std::string l(301, 'x'); p.setData(l, "serial", "h", "v1.2.3", {1, 2, 3}); return p; }
        case 13: { InterfacePayload p; p.setData(nullptr, 0, nullptr, 0); return p; }
        case 14: { InterfacePayload p; uint8_t s[3] = {1, 2, 3}; uint8_t v[5] = {9, 8, 7, 6, 5}; p.setData(s, 3, v, 5); return p; }
        case 15: return Payload(PayloadType(CmpHeader::MessageType::data, 0xFE), d.data(), 10);
        case 16: return Payload(PayloadType(CmpHeader::MessageType::status, 0xFE), d.data(), 7);
        case 17: return Payload(PayloadType(CmpHeader::MessageType::control, 0x01), d.data(), 5);     // header leaves the id bytes unused
        case 18: return Payload(PayloadType(CmpHeader::MessageType::vendor, 0x11), d.data(), 9);
        case 19: return Payload(PayloadType(static_cast<CmpHeader::MessageType>(0x07), 0x05), d.data(), 6);
        case 20: return CanPayload();
        case 21: return CaptureModulePayload();
        default: return InterfacePayload();
    }
}
constexpr int NPROTO = 23;

Packet mkPacket(int idx, bool setIds)
{
    Packet p;
    p.setPayload(proto(idx));
    if (setIds)
    {
        p.setTimestamp(0x0102030405060708ull + idx); p.setInterfaceId(0xA0B0C0D0u + idx); p.setVendorId((uint16_t) (0x1234 + idx)); p.setCommonFlags(0x21);
    }
    return p;
}

struct Workload
{
    std::string name;
    std::function<void(Out&)> run;
};

std::vector<Workload> build()
{
    std::vector<Workload> w;
    const size_t ctx[5][2] = {{0, 40}, {64, 100}, {0, 1500}, {64, 1500}, {200, 200}};
    // 1. encoder: singles, pairs, and a long mixed batch, all payload kinds, padded and unpadded
    for (auto& c : ctx)
        for (int setIds = 0; setIds < 2; ++setIds)
        {
            for (int a = 0; a < NPROTO; ++a)
                w.push_back({fmt("enc single proto%d ctx(%zu,%zu) ids%d", a, c[0], c[1], setIds), [=](Out& o) {
                                 Encoder e;
                                 e.setDeviceId(0x0102);
                                 e.setStreamId(7);
                                 Packet p = mkPacket(a, setIds);
                                 for (auto& f : e.encode(p, DataContext{c[0], c[1]}))
                                     o.vec(f);
                                 o.val(e.getSequenceCounter());
                             }});
            for (int a = 0; a < NPROTO; a += 2)
                for (int b = 1; b < NPROTO; b += 3)
                    w.push_back({fmt("enc pair proto%d,%d ctx(%zu,%zu) ids%d", a, b, c[0], c[1], setIds), [=](Out& o) {
                                     Encoder e;
                                     std::vector<Packet> batch = {mkPacket(a, setIds), mkPacket(b, setIds), mkPacket(a, setIds)};
                                     for (auto& f : e.encode(batch.begin(), batch.end(), DataContext{c[0], c[1]}))
                                         o.vec(f);
                                     // second call on the same encoder (leftover state)
                                     for (auto& f : e.encode(batch.begin() + 1, batch.end(), DataContext{c[0], c[1]}))
                                         o.vec(f);
                                 }});
        }
    // 2. round trip: encoder output through a decoder (reassembly), every getter of every packet
    for (auto& c : ctx)
        for (int a = 0; a < NPROTO; ++a)
            w.push_back({fmt("roundtrip proto%d ctx(%zu,%zu)", a, c[0], c[1]), [=](Out& o) {
                             Encoder e;
                             e.setDeviceId(3);
                             std::vector<Packet> batch = {mkPacket(a, true), mkPacket((a + 5) % NPROTO, false), mkPacket((a + 11) % NPROTO, true)};
                             Decoder d;
                             for (auto& f : e.encode(batch.begin(), batch.end(), DataContext{c[0], c[1]}))
                             {
                                 o.vec(f);
                                 for (auto& p : d.decode(f.data(), f.size()))
                                     outPacket(o, *p);
                             }
                         }});
    // 3. decoder on independently built frames: alphabet singles under 5 frame types, cuts, pads
    {
        auto A = messageAlphabet();
        for (uint8_t mt : {(uint8_t) 1, (uint8_t) 2, (uint8_t) 3, (uint8_t) 0xFF, (uint8_t) 7})
            for (size_t i = 0; i < A.size(); ++i)
            {
                ref::Msg m = A[i].m;
                w.push_back({fmt("decode %s under frame type 0x%x", A[i].name.c_str(), mt), [=](Out& o) {
                                 ref::FrameHdr fh;
                                 fh.device = 0x0A0B; fh.stream = 7; fh.msgType = mt; fh.version = 2; fh.seq = 77;
                                 Bytes f = ref::buildFrame(fh, {m, m});
                                 Decoder d;
                                 for (size_t cut : {f.size(), f.size() - 1, f.size() / 2, (size_t) 24, (size_t) 9})
                                 {
                                     if (cut > f.size())
                                         continue;
                                     Bytes g(f.begin(), f.begin() + cut);
                                     for (auto& p : d.decode(g.data(), g.size()))
                                         outPacket(o, *p);
                                 }
                                 Bytes padded = f;
                                 padded.resize(f.size() + 40, 0);
                                 for (auto& p : d.decode(padded.data(), padded.size()))
                                     outPacket(o, *p);
                             }});
            }
    }
    // 3b. every typed payload of the alphabet cut at EVERY length, each cut as a self-consistent message (declared length = bytes
    //     present; exact-size buffer): whatever a validator accepts of them, every accessor of the returned packet is determined by
    //     those bytes alone
    {
        auto A = messageAlphabet();
        for (size_t i = 0; i < A.size(); ++i)
        {
            ref::Msg m = A[i].m;
            if (m.body.size() < 4 || m.body.size() > 400 || m.h.ptype == 0xFE || m.h.ptype == 0)
                continue;
            w.push_back({fmt("decode %s cut at every payload length", A[i].name.c_str()), [=](Out& o) {
                             for (uint8_t mt : {(uint8_t) 1, (uint8_t) 3})
                                 for (size_t L = 0; L <= m.body.size(); ++L)
                                 {
                                     ref::Msg c = m;
                                     c.body.resize(L);
                                     c.h.plen = (uint16_t) L;
                                     ref::FrameHdr fh;
                                     fh.device = 0x0A0B; fh.stream = 7; fh.msgType = mt; fh.version = 1; fh.seq = 78;
                                     Bytes f = ref::buildFrame(fh, {c});
                                     std::unique_ptr<uint8_t[]> exact(new uint8_t[f.size()]);
                                     memcpy(exact.get(), f.data(), f.size());
                                     Decoder d;
                                     for (auto& p : d.decode(exact.get(), f.size()))
                                         outPacket(o, *p);
                                 }
                         }});
        }
    }
    // 4. reassembly of hand-built segments (sizes 0,1,5, trailing bytes, wrap)
    for (int k = 0; k < 12; ++k)
        w.push_back({fmt("reassembly variant %d", k), [=](Out& o) {
                         Decoder d;
                         ref::FrameHdr fh;
                         fh.device = 1; fh.stream = (uint8_t) k; fh.seq = (uint16_t) (65534 + k % 3);
                         size_t sizes[4] = {(size_t) (k % 3 == 0 ? 0 : 5), (size_t) (k % 4), 5, (size_t) (k % 2)};
                         for (int s = 0; s < 4; ++s)
                         {
                             uint8_t seg = s == 0 ? 1 : (s == 3 ? 3 : 2);
                             Bytes f = ref::buildFrame(fh, {ref::mkMsg(0xFE, pt(sizes[s], (unsigned) (k * 4 + s)), (uint8_t) (seg << 2), 9, 10)});
                             for (int z = 0; z < (k % 3) * 7; ++z)
                                 f.push_back(0xEE);
                             fh.seq++;
                             for (auto& p : d.decode(f.data(), f.size()))
                                 outPacket(o, *p);
                         }
                     }});
    // 5. TECMP conversion
    {
        std::vector<Bytes> seeds;
        ref::TecmpHdr h;
        h.device = 0x43; h.ifid = 0x01020304; h.ts = 0x1122334455667788ull; h.msgType = ref::TM_DATA; h.dataType = ref::TD_CAN;
        // every trailer length 0..3 (a truncated CRC trailer leaves part of the CRC to whatever the converter makes up)
        for (int len : {0, 1, 8})
            for (int crc : {0, 1, 2, 3})
                seeds.push_back(ref::tecmpFrame(h, ref::tecmpCanPayload(0x123, (uint8_t) len, pt((size_t) len, 1), crc)));
        h.dataType = ref::TD_CANFD;
        for (int len : {9, 12, 64})
            for (int crc : {0, 1, 2, 3})
                seeds.push_back(ref::tecmpFrame(h, ref::tecmpCanPayload(0x321, (uint8_t) len, pt((size_t) len, 2), crc)));
        h.dataType = ref::TD_LIN;
        for (int len : {0, 1, 3, 8})
            for (int cs = 0; cs < 2; ++cs)
                seeds.push_back(ref::tecmpFrame(h, ref::tecmpLinPayload(0x7F, (uint8_t) len, pt((size_t) len, 3), cs != 0, 0x5A)));
        h.dataType = 0; h.msgType = ref::TM_CM_STATUS;
        {
            Bytes p = pt(36, 4);
            seeds.push_back(ref::tecmpFrame(h, p));
        }
        h.msgType = ref::TM_BUS_STATUS;
        for (int n : {1, 2, 9})
            seeds.push_back(ref::tecmpFrame(h, pt(12 + 12 * (size_t) n, 5)));
        h.msgType = ref::TM_DATA; h.dataType = ref::TD_ETH;
        seeds.push_back(ref::tecmpFrame(h, pt(20, 6)));
        for (size_t i = 0; i < seeds.size(); ++i)
        {
            Bytes f = seeds[i];
            w.push_back({fmt("tecmp seed %zu", i), [=](Out& o) {
                             Decoder d;
                             for (auto& p : d.decode(f.data(), f.size()))
                                 outPacket(o, *p);
                             for (auto& p : TECMP::Decoder::Decode(f.data(), f.size()))
                                 outPacket(o, *p);
                         }});
        }
    }
    // 5b. malformed TECMP: what a truncated or lying message leaves undetermined must not reach a returned packet.
    //     One workload per family member, each a sequence of decodes of exact-size heap buffers.
    {
        auto both = [](Out& o, const Bytes& f) {
            Decoder d;
            for (auto& p : d.decode(f.data(), f.size()))
                outPacket(o, *p);
            for (auto& p : TECMP::Decoder::Decode(f.data(), f.size()))
                outPacket(o, *p);
            o.val(f.size());
        };
        ref::TecmpHdr h;
        h.device = 0x43; h.ifid = 0x01020304; h.ts = 0x1122334455667788ull;
        const int lbs[] = {0, 1, 2, 7, 8, 9, 0x3F, 0x40, 0x41, 0x7F, 0x80, 0xFD, 0xFE, 0xFF};
        // (a) CAN / CAN-FD / LIN length byte disagrees with the bytes carried (carried: 0, 1, 3, 8, 64 data bytes; trailer 0..3)
        for (int kind = 0; kind < 3; ++kind)
            for (int real : {0, 1, 3, 8, 64})
            {
                ref::TecmpHdr hh = h;
                hh.msgType = ref::TM_DATA; hh.dataType = kind == 0 ? ref::TD_CAN : (kind == 1 ? ref::TD_CANFD : ref::TD_LIN);
                w.push_back({fmt("tecmp lying length byte kind%d real%d", kind, real), [=](Out& o) {
                                 for (int lb : lbs)
                                     for (int tr = 0; tr < 4; ++tr)
                                     {
                                         Bytes pl = kind == 2 ? ref::tecmpLinPayload(0x7F, (uint8_t) lb, pt((size_t) real, 3), tr & 1, 0x5A)
                                                              : ref::tecmpCanPayload(0x123, (uint8_t) lb, pt((size_t) real, 1), tr);
                                         if (kind == 2 && tr > 1)
                                             continue;
                                         both(o, ref::tecmpFrame(hh, pl));
                                     }
                             }});
            }
        // (b) status messages: every payload length 0..40 x announced vendor-data length (payload bytes 4..5)
        for (uint8_t mt : {(uint8_t) ref::TM_CM_STATUS, (uint8_t) ref::TM_BUS_STATUS})
            for (int vdl : {-1, 0, 1, 3, 5, 12, 24, 36, 0xFFFF})
            {
                ref::TecmpHdr hh = h;
                hh.msgType = mt; hh.dataType = 0;
                w.push_back({fmt("tecmp status mt%u announced%d all payload lengths", mt, vdl), [=](Out& o) {
                                 for (size_t n = 0; n <= 40; ++n)
                                 {
                                     Bytes pl = pt(n, 4);
                                     if (vdl >= 0 && n >= 6)
                                     {
                                         pl[4] = (uint8_t) (vdl >> 8);
                                         pl[5] = (uint8_t) vdl;
                                     }
                                     both(o, ref::tecmpFrame(hh, pl));
                                 }
                             }});
            }
        // (c) every truncation of a well-formed message of each kind
        {
            std::vector<Bytes> full;
            ref::TecmpHdr hh = h;
            hh.msgType = ref::TM_DATA; hh.dataType = ref::TD_CAN;
            full.push_back(ref::tecmpFrame(hh, ref::tecmpCanPayload(0x123, 8, pt(8, 1), 2)));
            hh.dataType = ref::TD_CANFD;
            full.push_back(ref::tecmpFrame(hh, ref::tecmpCanPayload(0x321, 12, pt(12, 2), 3)));
            hh.dataType = ref::TD_LIN;
            full.push_back(ref::tecmpFrame(hh, ref::tecmpLinPayload(0x7F, 8, pt(8, 3), true, 0x5A)));
            hh.dataType = 0; hh.msgType = ref::TM_CM_STATUS;
            full.push_back(ref::tecmpFrame(hh, pt(36, 4)));
            hh.msgType = ref::TM_BUS_STATUS;
            full.push_back(ref::tecmpFrame(hh, pt(36, 5)));
            for (size_t i = 0; i < full.size(); ++i)
            {
                Bytes f = full[i];
                w.push_back({fmt("tecmp truncations of message %zu", i), [=](Out& o) {
                                 for (size_t cut = 0; cut < f.size(); ++cut)
                                     both(o, Bytes(f.begin(), f.begin() + cut));
                             }});
            }
        }
    }
    // 5c. builders on objects constructed from a TRUNCATED raw image (every length below the class header): whatever the builder
    //     does about the missing header bytes, they must not come from beyond the image
    for (int cls = 0; cls < 5; ++cls)
    {
        const size_t hdrs[5] = {16, 16, 8, 6, 16};
        w.push_back({fmt("build on truncated image cls%d", cls), [=](Out& o) {
                         for (size_t k = 0; k < hdrs[cls]; ++k)
                             for (size_t len : {(size_t) 0, (size_t) 3, (size_t) 8})
                             {
                                 // exact-size heap image
                                 std::unique_ptr<uint8_t[]> img(new uint8_t[k ? k : 1]);
                                 for (size_t i = 0; i < k; ++i)
                                     img[i] = (uint8_t) (0x11 * (i + 1));
                                 Bytes d = pt(len, 1);
                                 auto emit = [&](Payload& p) { o.bytes(p.getRawPayload(), p.getLength()); o.val(p.getLength()); };
                                 switch (cls)
                                 {
                                     case 0: { CanPayload p(img.get(), k); p.setData(d.data(), (uint8_t) len); emit(p); break; }
                                     case 1: { CanFdPayload p(img.get(), k); p.setData(d.data(), (uint8_t) len); emit(p); break; }
                                     case 2: { LinPayload p(img.get(), k); p.setData(d.data(), (uint8_t) len); emit(p); break; }
                                     case 3: { EthernetPayload p(img.get(), k); p.setData(d.data(), (uint16_t) len); emit(p); break; }
                                     default: { AnalogPayload p(img.get(), k); p.setData(d.data(), len); emit(p); break; }
                                 }
                             }
                     }});
    }
    // 5b. the TECMP LIN builder on objects without a (complete) header: constructed from 0..2 raw bytes, default-constructed, moved-from
    w.push_back({"tecmp lin builder on truncated / default / moved-from objects", [=](Out& o) {
                     for (size_t len : {(size_t) 0, (size_t) 1, (size_t) 3, (size_t) 8})
                     {
                         Bytes d = pt(len, 1);
                         auto emit = [&](const TECMP::Payload& p) { o.bytes(p.getRawPayload(), p.getLength()); o.val(p.getLength()); };
                         for (size_t k = 0; k <= 2; ++k)
                         {
                             std::unique_ptr<uint8_t[]> img(new uint8_t[k ? k : 1]);
                             for (size_t i = 0; i < k; ++i)
                                 img[i] = (uint8_t) (0x21 * (i + 1));
                             TECMP::LinPayload p(img.get(), k);
                             p.setData(d.data(), (uint8_t) len);
                             emit(p);
                         }
                         {
                             TECMP::LinPayload p;
                             p.setData(d.data(), (uint8_t) len);
                             emit(p);
                         }
                         {
                             TECMP::LinPayload src;
                             Bytes q = pt(5, 2);
                             src.setData(q.data(), 5);
                             TECMP::LinPayload taken(std::move(src));
                             emit(taken);
                             src.setData(d.data(), (uint8_t) len);   // the moved-from object is used again
                             emit(src);
                         }
                     }
                 }});
    // 6. payload builders with prior contents: raw bytes
    for (int prior = 0; prior < 3; ++prior)
    {
        for (size_t len : {(size_t) 0, (size_t) 1, (size_t) 7, (size_t) 8, (size_t) 9, (size_t) 64, (size_t) 255})
        {
            w.push_back({fmt("build can len%zu prior%d", len, prior), [=](Out& o) {
                             CanPayload p;
                             if (prior) { Bytes q = pt(prior == 1 ? len / 2 : len + 9, 7); p.setData(q.data(), (uint8_t) std::min<size_t>(q.size(), 255)); }
                             Bytes d = pt(len, 1);
                             p.setData(d.data(), (uint8_t) len);
                             o.bytes(p.getRawPayload(), p.getLength());
                             o.val(p.getLength());
                         }});
            w.push_back({fmt("build lin len%zu prior%d", len, prior), [=](Out& o) {
                             LinPayload p;
                             if (prior) { Bytes q = pt(prior == 1 ? len / 2 : len + 9, 7); p.setData(q.data(), (uint8_t) std::min<size_t>(q.size(), 255)); }
                             Bytes d = pt(len, 1);
                             p.setData(d.data(), (uint8_t) len);
                             o.bytes(p.getRawPayload(), p.getLength());
                         }});
            w.push_back({fmt("build eth/analog len%zu prior%d", len, prior), [=](Out& o) {
                             EthernetPayload p;
                             AnalogPayload a;
                             if (prior) { Bytes q = pt(prior == 1 ? len / 2 : len + 900, 7); p.setData(q.data(), (uint16_t) q.size()); a.setData(q.data(), q.size()); }
                             Bytes d = pt(len * 5, 1);
                             p.setData(d.data(), (uint16_t) d.size());
                             a.setData(d.data(), d.size());
                             o.bytes(p.getRawPayload(), p.getLength());
                             o.bytes(a.getRawPayload(), a.getLength());
                         }});
        }
        for (size_t sl : {(size_t) 0, (size_t) 1, (size_t) 2, (size_t) 3, (size_t) 500})
            for (size_t vl : {(size_t) 0, (size_t) 1, (size_t) 2, (size_t) 3})
                w.push_back({fmt("build cm strlen%zu vendor%zu prior%d", sl, vl, prior), [=](Out& o) {
                                 CaptureModulePayload p;
                                 if (prior == 1) p.setData("x", "", "yy", "", {7});
                                 if (prior == 2) p.setData(std::string(1200, 'q'), "abcde", "1234567", std::string(900, 'r'), Bytes(9, 0xEE));
                                 p.setData(std::string(sl, 'a'), std::string((sl + 1) % 4, 'b'), std::string((sl + 2) % 4, 'c'), std::string(sl % 3, 'd'), pt(vl, 2));
                                 o.bytes(p.getRawPayload(), p.getLength());
                                 auto s = p.getSoftwareVersion();
                                 o.bytes(s.data(), s.size());
                             }});
        for (size_t sc : {(size_t) 0, (size_t) 1, (size_t) 2, (size_t) 3, (size_t) 255})
            for (size_t vl : {(size_t) 0, (size_t) 1, (size_t) 2, (size_t) 3})
                w.push_back({fmt("build if streams%zu vendor%zu prior%d", sc, vl, prior), [=](Out& o) {
                                 InterfacePayload p;
                                 if (prior == 1) { uint8_t s1 = 0xAA; p.setData(&s1, 1, nullptr, 0); }
                                 if (prior == 2) { Bytes s2(sc + 301, 0xBB), v2(vl + 302, 0xCC); p.setData(s2.data(), (uint16_t) s2.size(), v2.data(), (uint16_t) v2.size()); }
                                 Bytes s = pt(sc, 3), v = pt(vl, 4);
                                 p.setData(s.data(), (uint16_t) sc, v.data(), (uint16_t) vl);
                                 o.bytes(p.getRawPayload(), p.getLength());
                             }});
    }
    // 7. default-constructed headers and packets serialised
    w.push_back({"default headers", [](Out& o) {
                     CmpHeader a; MessageHeader b; TECMP::CmpHeader c; CanPayloadBase::Header d; LinPayload::Header e; EthernetPayload::Header f; AnalogPayload::Header g;
                     CaptureModulePayload::Header h; InterfacePayload::Header i;
                     o.bytes(&a, sizeof a); o.bytes(&b, sizeof b); o.bytes(&c, sizeof c); o.bytes(&d, sizeof d); o.bytes(&e, sizeof e); o.bytes(&f, sizeof f); o.bytes(&g, sizeof g);
                     o.bytes(&h, sizeof h); o.bytes(&i, sizeof i);
                     TECMP::CanPayload tc; TECMP::LinPayload tl; TECMP::InterfacePayload ti; TECMP::CaptureModulePayload tm;
                     o.bytes(tc.getRawPayload(), tc.getLength()); o.bytes(tl.getRawPayload(), tl.getLength()); o.bytes(ti.getRawPayload(), ti.getLength());
                     o.bytes(tm.getRawPayload(), tm.getLength());
                     o.val(tl.getPid()); o.val(tl.getDataLength()); o.val(tl.getCrc());
                 }});
    for (int a = 0; a < NPROTO; ++a)
        w.push_back({fmt("default packet with proto%d serialised", a), [=](Out& o) {
                         Packet p;
                         p.setPayload(proto(a));
                         outPacket(o, p);
                         Packet q(p), r;
                         r = p;
                         outPacket(o, q);
                         outPacket(o, r);
                     }});
    // 8. status tracker
    w.push_back({"status tracker", [](Out& o) {
                     Status st;
                     for (int d = 1; d <= 3; ++d)
                     {
                         Packet c = mkPacket(11, true);
                         c.setDeviceId((uint16_t) d);
                         st.update(c);
                         Packet i = mkPacket(14, true);
                         i.setDeviceId((uint16_t) d);
                         st.update(i);
                     }
                     st.removeDeviceById(2);
                     for (size_t k = 0; k < st.getDeviceStatusCount(); ++k)
                     {
                         outPacket(o, st.getDeviceStatus(k).getPacket());
                         for (size_t j = 0; j < st.getDeviceStatus(k).getInterfaceStatusCount(); ++j)
                             outPacket(o, st.getDeviceStatus(k).getInterfaceStatus(j).getPacket());
                     }
                 }});
    return w;
}

void churn(uint8_t fill)
{
    // leave differently filled garbage in freed heap blocks of many sizes
    std::vector<void*> v;
    for (size_t sz : {(size_t) 8, (size_t) 24, (size_t) 40, (size_t) 64, (size_t) 100, (size_t) 200, (size_t) 520, (size_t) 1500, (size_t) 1600, (size_t) 4000, (size_t) 70000})
        for (int k = 0; k < 4; ++k)
        {
            void* p = malloc(sz);
            memset(p, fill, sz);
            v.push_back(p);
        }
    for (void* p : v)
        free(p);
}

}  // namespace

int main(int argc, char** argv)
{
    auto wl = build();
    if (argc >= 2 && std::string(argv[1]) == "count")
    {
        printf("%zu\n", wl.size());
        return 0;
    }
    if (argc < 5)
    {
        fprintf(stderr, "usage: uninit count | uninit run <from> <to> <fillbyte-hex>\n");
        return 2;
    }
    size_t from = strtoull(argv[2], nullptr, 10), to = std::min<size_t>(wl.size(), strtoull(argv[3], nullptr, 10));
    uint8_t fill = (uint8_t) strtoul(argv[4], nullptr, 16);
    for (size_t i = from; i < to; ++i)
    {
        fprintf(stderr, "BEGIN %zu\n", i);
        fflush(stderr);
        churn(fill);
        Out o;
        wl[i].run(o);
        printf("W %zu %016llx %llu %llx | %s\n", i, (unsigned long long) o.h, (unsigned long long) o.n, (unsigned long long) mc::fnv_s(o.shape), wl[i].name.c_str());
    }
    fflush(stdout);
    return 0;
}
