#!/usr/bin/env python3
"""C19 driver: (1) preemption-bounded exhaustive schedule exploration (engines/sched.cpp under the
serialising scheduler, library compiled with sanitizer-coverage scheduling points + ASan),
(2) separate free-running ThreadSanitizer pass of the same thread bodies."""
import os
import re
import subprocess
import sys
import tempfile
from concurrent.futures import ThreadPoolExecutor

sys.path.insert(0, os.path.join(os.path.dirname(os.path.abspath(__file__)), ".."))
from mc.pyharness import Run, VERIF  # noqa: E402

NPROC = int(os.environ.get("VERIF_WORKERS") or min(16, os.cpu_count() or 1))
BODIES = ["enc", "dec", "tecmp", "status", "build"]
LEVELS = {0: "api", 1: "func", 2: "bb"}


def build(cfg, eng):
    r = subprocess.run([sys.executable, os.path.join(VERIF, "mc", "build.py"), cfg, eng], stdout=subprocess.PIPE, text=True)
    if r.returncode != 0:
        print("BUILD-ERROR engine=%s config=%s" % (eng, cfg))
        sys.exit(2)
    return r.stdout.strip().splitlines()[-1]


def fatal_key(err, rc):
    m = re.search(r"AddressSanitizer: ([\w-]+)", err)
    kind = "asan:" + m.group(1) if m else "exit-%d" % rc
    m = re.search(r" in ((?:ASAM::CMP|TECMP)::[^( ]+)", err)
    return "%s@%s" % (kind, m.group(1) if m else "?")


def explore(binary, bodies, level, k, shard, nshards, deadline_s):
    with tempfile.TemporaryFile() as pf:
        cmd = [binary, ",".join(bodies), str(level), str(k), "--deadline-s", str(deadline_s), "--shard", "%d/%d" % (shard, nshards), "--progress-fd", str(pf.fileno())]
        env = dict(os.environ)
        env["ASAN_OPTIONS"] = "detect_leaks=0:abort_on_error=0"
        r = subprocess.run(cmd, stdout=subprocess.PIPE, stderr=subprocess.PIPE, text=True, pass_fds=[pf.fileno()], env=env, errors="replace")
        pf.seek(0)
        progress = pf.read(1000).decode(errors="replace").strip()
    return r.returncode, r.stdout, r.stderr, progress


def main():
    prop, tier = sys.argv[1], sys.argv[2]
    if tier == "thorough" and not os.environ.get("VERIF_DEADLINE_S"):
        os.environ["VERIF_DEADLINE_S"] = "3600"   # measured: 2200 s on 16 cores for the full thorough plan
    run = Run("sched", prop, tier)
    run.assumptions = ["scheduling points: explicit points between library calls (api), entries of functions named ASAM::CMP:: / TECMP:: (func), every basic block of the "
                       "library translation units (bb), inserted by the compiler (-fsanitize-coverage); preemption inside uninstrumented libstdc++/libc is not explored",
                       "sequentially consistent memory (the library has no atomics); the confinement monitor sees every load/store of library code (trace-loads/stores)",
                       "VERIF_SEED is ignored: nothing is sampled"]
    run.rule = ("bodies: enc, dec, tecmp, status, build on objects of their own, plus the hand-over pair deccont / consume (a decoder's owner goes on decoding while another thread "
                "reads, copies, feeds to its own Status / Encoder and destroys the packets that decoder returned earlier); real pthreads serialised by a token; deviation-bounded DFS over scheduling points: all schedules with <= k preemptions (switches at a thread end are free), "
                "both/all initial thread choices; per schedule: every thread's result digest must equal the digest of the same body run alone, ASan clean, and no 8-byte granule "
                "outside the thread's own stack may be touched by two threads with at least one write (confinement monitor over all library loads/stores); plus a free-running "
                "ThreadSanitizer pass of the same bodies; distinct = distinct (point count, digests, conflicts) outcomes summed over explorations")
    binary = build("sched", "sched")

    if "--case-file" in sys.argv:
        cs = open(sys.argv[sys.argv.index("--case-file") + 1]).read().strip()
        kv = dict(x.split("=", 1) for x in cs.split(" ::")[0].split(";") if "=" in x)
        if kv.get("bodies") == "freerun":
            tsan = build("tsan", "tsanrun")
            r = subprocess.run([tsan, "200"], stdout=subprocess.PIPE, stderr=subprocess.PIPE, text=True)
            print(r.stdout + r.stderr[:3000])
            return 0 if r.returncode == 0 and "ThreadSanitizer" not in r.stderr else 1
        r = subprocess.run([binary, kv["bodies"], kv.get("level", "1"), "0", "--replay", "first=%s;dev=%s" % (kv.get("first", "0"), kv.get("dev", ""))],
                           stdout=subprocess.PIPE, stderr=subprocess.PIPE, text=True)
        print(r.stdout + r.stderr[:3000])
        return 0 if r.returncode == 0 else 1

    pairs = [(BODIES[i], BODIES[j]) for i in range(5) for j in range(i, 5)]
    same = [(b, b) for b in BODIES]
    tasks = []   # (bodies, level, k, nshards)
    for p in pairs:
        tasks.append((p, 0, 99, 1))
    for p in pairs:
        tasks.append((p, 1, 1, 1))
    if tier == "quick":
        for p in same:
            tasks.append((p, 2, 1, 1))
        tasks.append((("build", "build"), 1, 2, 4))
        tasks.append((("status", "status"), 1, 2, 12))
        tasks.append((("enc", "dec", "status"), 1, 0, 1))
    else:
        for p in pairs:
            tasks.append((p, 2, 1, 2))
        for p in pairs:
            tasks.append((p, 1, 2, 16))
        for t in [("enc", "dec", "status"), ("tecmp", "build", "enc"), ("dec", "dec", "dec")]:
            tasks.append((t, 1, 1, 8))
            tasks.append((t, 0, 2, 1))
    # the hand-over pair: packets a decoder has returned are consumed and destroyed by another thread while the decoder's owner
    # goes on decoding (rebuilt before every execution)
    hand = ("deccont", "consume")
    tasks.append((hand, 0, 99, 1))
    tasks.append((hand, 1, 1, 1))
    tasks.append((hand, 2, 1, 2))
    # the copy family: every thread works on its own COPY of one configured prototype (encoder, decoder with an open message, status)
    for c in ("enccopy", "deccopy", "statuscopy"):
        tasks.append(((c, c), 0, 99, 1))
        tasks.append(((c, c), 1, 1, 1))
        tasks.append(((c, c), 2, 1, 1))
        if tier != "quick":
            tasks.append(((c, c), 1, 2, 8))
            tasks.append(((c, c, c), 1, 1, 4))
    # the shared-input family: the threads' inputs (const packets, const frame buffers) are the SAME objects
    for pair in (("encshared", "encshared"), ("encshared", "statusshared"), ("decshared", "decshared")):
        tasks.append((pair, 0, 99, 1))
        tasks.append((pair, 1, 1, 1))
        tasks.append((pair, 2, 1, 1))
        if tier != "quick":
            tasks.append((pair, 1, 2, 8))
    # big state: two (thorough: three) decoders each holding 300 reassemblies of 65000 bytes at once, all interleavings of their phases
    tasks.append((("decbig", "decbig"), 0, 99, 1))
    if tier != "quick":
        tasks.append((("decbig", "decbig", "decbig"), 0, 99, 1))
    if tier != "quick":
        tasks.append((("encshared", "statusshared", "encshared"), 1, 1, 4))
    if tier != "quick":
        tasks.append((hand, 1, 2, 16))
        tasks.append((("deccont", "consume", "consume"), 1, 1, 8))
    jobs = []
    for (bodies, level, k, ns) in tasks:
        for s in range(ns):
            jobs.append((bodies, level, k, s, ns))
    # long jobs first
    jobs.sort(key=lambda j: -(j[2] if j[2] < 99 else 0) * 10 - j[1])
    remaining = max(10.0, run.deadline - 25)

    def do(job):
        bodies, level, k, s, ns = job
        return job, explore(binary, bodies, level, k, s, ns, remaining)
    totals = dict(schedules=0, transitions=0, distinct=0, loads=0, stores=0, globals=0, replay_checks=0)
    per_task = {}
    harness_msgs = []
    global_state_seen = False
    with ThreadPoolExecutor(max_workers=NPROC) as ex:
        for job, (rc, out, err, progress) in ex.map(do, jobs):
            bodies, level, k, s, ns = job
            name = "%s %s k<=%s" % (",".join(bodies), LEVELS[level], "inf" if k >= 99 else k)
            m = re.search(r"RESULT .*", out)
            for v in re.findall(r"VIOL key=(\S+) :: (.*)", out):
                if v[0].startswith("harness:"):
                    harness_msgs.append(v)
                    continue
                if v[0].startswith("concurrency:unsynchronised-shared-access:global"):
                    global_state_seen = True
                run.fail(v[0], v[1], v[1].split(" :: ")[0])
            if rc not in (0, 1, 3) or not m:
                run.fail(fatal_key(err, rc), "explorer process died (exit %d) while executing schedule %s: %s" % (rc, progress, err[:1500]), progress)
                run.exhaustive = False
                continue
            kv = dict(x.split("=") for x in m.group(0).split()[1:])
            t = per_task.setdefault(name, dict(schedules=0, transitions=0, max_points=0, capped=False, shards=ns))
            t["schedules"] += int(kv["schedules"])
            t["transitions"] += int(kv["transitions"])
            t["max_points"] = max(t["max_points"], int(kv["max_points"]))
            t["capped"] = t["capped"] or kv["capped"] == "1"
            totals["schedules"] += int(kv["schedules"])
            totals["transitions"] += int(kv["transitions"])
            totals["distinct"] += int(kv["distinct_outcomes"])
            totals["loads"] += int(kv["lib_loads"])
            totals["stores"] += int(kv["lib_stores"])
            totals["globals"] += int(kv["global_accesses"])
            totals["replay_checks"] += int(kv["replay_checks"])
            run.cov["guards"] = int(kv["guards"])
            run.cov["function_entry_guards_in_library_named_functions"] = int(kv["func_guards"])
            if kv["capped"] == "1":
                run.exhaustive = False
    # A schedule that does not replay identically is a defect of the harness - unless the confinement monitor saw library code
    # write process-global state in the same run: then executions differ because of what earlier executions left in that state,
    # which is the property failing (results depend on more than the instance), not the harness.
    for v in harness_msgs:
        if global_state_seen:
            run.fail("concurrency:execution-depends-on-process-global-library-state",
                     "re-executing the same schedule in the same process gave another result (%s) and library code writes process-global state: %s" % (v[0], v[1]),
                     v[1].split(" :: ")[0])
        else:
            run.status3 = True
            print("HARNESS-NONDETERMINISM property=%s %s %s" % (prop, v[0], v[1]))
    for name, t in per_task.items():
        run.rounds.append({"round": name, "completed": not t["capped"], "schedules": t["schedules"], "transitions": t["transitions"], "max_points_in_one_schedule": t["max_points"],
                           "shards": t["shards"]})
    for name in list(per_task)[:6]:
        run.samples.append("%s: %d schedules, up to %d scheduling points each; a schedule is written first=<thread>;dev=<point>:<thread>,..." % (name, per_task[name]["schedules"], per_task[name]["max_points"]))

    # free-running ThreadSanitizer pass
    tsan = build("tsan", "tsanrun")
    env = dict(os.environ)
    env["TSAN_OPTIONS"] = "halt_on_error=0:exitcode=66:report_signal_unsafe=0"
    r = subprocess.run([tsan, "200" if tier == "quick" else "2000"], stdout=subprocess.PIPE, stderr=subprocess.PIPE, text=True, env=env, errors="replace")
    m = re.search(r"FREERUN sets=(\d+) body_runs=(\d+) digest_mismatches=(\d+)", r.stdout)
    reports = r.stderr.count("WARNING: ThreadSanitizer")
    if reports:
        mm = re.search(r"((?:ASAM::CMP|TECMP)::[^( ]+)", r.stderr)
        run.fail("tsan:data-race@%s" % (mm.group(1) if mm else "?"), "ThreadSanitizer reports %d issue(s) in the free-running pass: %s" % (reports, r.stderr[:1800]), "bodies=freerun")
    if not m or (r.returncode not in (0, 66) and not reports):
        run.fail("tsan:free-running-pass-failed", "exit %d: %s" % (r.returncode, (r.stdout + r.stderr)[:1000]), "bodies=freerun")
    elif int(m.group(3)):
        run.fail("concurrency:result-differs-from-solo-run:free-running", "%s digest mismatches in the free-running pass" % m.group(3), "bodies=freerun")
    run.rounds.append({"round": "free-running ThreadSanitizer pass", "completed": bool(m), "body_runs": int(m.group(2)) if m else 0, "tsan_reports": reports})
    run.cov["library_loads_observed"] = totals["loads"]
    run.cov["library_stores_observed"] = totals["stores"]
    run.cov["accesses_to_writable_globals_from_library_code"] = totals["globals"]
    run.cov["determinism_replay_checks"] = totals["replay_checks"]
    return run.finish(evaluations=totals["schedules"], distinct=max(totals["distinct"], 0), states=totals["transitions"], transitions=totals["transitions"],
                      traces=totals["schedules"])


if __name__ == "__main__":
    sys.exit(main())
