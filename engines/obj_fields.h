// Field table for C11 / C12: every setter/getter pair of every header / payload class together with
// the INDEPENDENT layout columns (byte offset, width of the big-endian word, bit position) written
// from the protocol layouts (DESIGN.md Appendix A), not from include/asam_cmp/*.h.
#pragma once
#include <asam_cmp/analog_payload.h>
#include <asam_cmp/can_fd_payload.h>
#include <asam_cmp/can_payload.h>
#include <asam_cmp/capture_module_payload.h>
#include <asam_cmp/cmp_header.h>
#include <asam_cmp/ethernet_payload.h>
#include <asam_cmp/interface_payload.h>
#include <asam_cmp/lin_payload.h>
#include <asam_cmp/message_header.h>
#include <asam_cmp/packet.h>
#include <asam_cmp/payload_type.h>
#include <asam_cmp/tecmp_can_payload.h>
#include <asam_cmp/tecmp_capture_module_payload.h>
#include <asam_cmp/tecmp_header.h>
#include <asam_cmp/tecmp_interface_payload.h>
#include <asam_cmp/tecmp_lin_payload.h>

#include <functional>
#include <string>
#include <vector>

#include "ref/wire.h"

namespace tbl {

using ref::Bytes;
namespace A = ASAM::CMP;

template <class T>
struct Field
{
    std::string name;
    int bits;                      // in-range values: 0 .. 2^bits-1 (or `values` if not empty)
    int off, width, shift;         // value occupies bits [shift, shift+bits) of the BE word (off, width); off < 0: no raw image
    std::function<void(T&, uint64_t)> set;
    std::function<uint64_t(const T&)> get;
    std::vector<uint64_t> values;  // explicit in-range value set (enumerations)
    bool isFloat = false;
    std::vector<std::string> aliases;   // explicit aliases (classes without raw image)
};

template <class T>
struct Cls
{
    std::string name;
    size_t hdrSize = 0;                                 // size of the raw image without data bytes (standard header size)
    bool hasData = false;                               // payload class: images also with 5 data bytes behind the header
    std::function<T()> dflt;
    std::function<T(const Bytes&)> fromRaw;             // object in the state described by these raw bytes
    std::function<Bytes(const T&)> raw;
    std::vector<Field<T>> fields;
    std::vector<std::pair<int, uint8_t>> reserved;      // (byte offset, mask) that must be zero in default objects
    std::function<size_t(const T&)> size;               // sizeof / getLength of a default object
    std::function<T(int)> makeBg;                       // classes without raw image: background object by index 0..3
    std::function<T(int)> consistent;                   // optional background 4: an object whose fields are consistent with each other BY THE
                                                        // PROTOCOL'S SEMANTICS (valid LIN parity, checksum matching the data, DLC matching the
                                                        // length); argument: number of data bytes
    std::vector<std::string> assumptions;
};

#define FLD(T, NAME, BITS, OFF, W, SH, SETEXPR, GETEXPR)                                                                           \
    tbl::Field<T>                                                                                                                  \
    {                                                                                                                              \
        NAME, BITS, OFF, W, SH, [](T & o, uint64_t v) { (void) v; SETEXPR; }, [](const T& o) -> uint64_t { return (uint64_t) (GETEXPR); }, {}, false, {} \
    }

template <class T>
static std::function<T(const Bytes&)> podFromRaw()
{
    return [](const Bytes& b) {
        T t;
        memcpy(static_cast<void*>(&t), b.data(), std::min(sizeof(T), b.size()));
        return t;
    };
}
template <class T>
static std::function<Bytes(const T&)> podRaw()
{
    return [](const T& t) {
        Bytes b(sizeof(T));
        memcpy(b.data(), static_cast<const void*>(&t), sizeof(T));
        return b;
    };
}
template <class T>
static std::function<T(const Bytes&)> payloadFromRaw()
{
    return [](const Bytes& b) { return T(b.data(), b.size()); };
}
template <class T>
static std::function<Bytes(const T&)> payloadRaw()
{
    return [](const T& t) { return Bytes(t.getRawPayload(), t.getRawPayload() + t.getLength()); };
}

static inline uint32_t f2u(float f)
{
    uint32_t u;
    memcpy(&u, &f, 4);
    return u;
}
static inline float u2f(uint64_t u)
{
    uint32_t x = (uint32_t) u;
    float f;
    memcpy(&f, &x, 4);
    return f;
}
static inline uint16_t sw16(uint16_t v) { return (uint16_t) ((v >> 8) | (v << 8)); }

// ---- ASAM CMP -----------------------------------------------------------------------------------
static inline Cls<A::CmpHeader> cmpHeader()
{
    using T = A::CmpHeader;
    Cls<T> c;
    c.name = "CmpHeader"; c.hdrSize = 8;
    c.dflt = [] { return T(); }; c.fromRaw = podFromRaw<T>(); c.raw = podRaw<T>(); c.size = [](const T&) { return sizeof(T); };
    c.fields = {
        FLD(T, "Version", 8, 0, 1, 0, o.setVersion((uint8_t) v), o.getVersion()),
        FLD(T, "DeviceId", 16, 2, 2, 0, o.setDeviceId((uint16_t) v), o.getDeviceId()),
        FLD(T, "MessageType", 8, 4, 1, 0, o.setMessageType(static_cast<T::MessageType>(v)), o.getMessageType()),
        FLD(T, "StreamId", 8, 5, 1, 0, o.setStreamId((uint8_t) v), o.getStreamId()),
        FLD(T, "SequenceCounter", 16, 6, 2, 0, o.setSequenceCounter((uint16_t) v), o.getSequenceCounter()),
    };
    c.reserved = {{1, 0xFF}};
    return c;
}

static inline Cls<A::MessageHeader> messageHeader()
{
    using T = A::MessageHeader;
    Cls<T> c;
    c.name = "MessageHeader"; c.hdrSize = 16;
    c.dflt = [] { return T(); }; c.fromRaw = podFromRaw<T>(); c.raw = podRaw<T>(); c.size = [](const T&) { return sizeof(T); };
    c.fields = {
        FLD(T, "Timestamp", 64, 0, 8, 0, o.setTimestamp(v), o.getTimestamp()),
        FLD(T, "InterfaceId", 32, 8, 4, 0, o.setInterfaceId((uint32_t) v), o.getInterfaceId()),
        FLD(T, "VendorId", 16, 10, 2, 0, o.setVendorId((uint16_t) v), o.getVendorId()),
        FLD(T, "CommonFlags", 8, 12, 1, 0, o.setCommonFlags((uint8_t) v), o.getCommonFlags()),
        FLD(T, "SegmentType", 2, 12, 1, 2, o.setSegmentType(static_cast<T::SegmentType>(v << 2)), (uint8_t) o.getSegmentType() >> 2),
        FLD(T, "PayloadType", 8, 13, 1, 0, o.setPayloadType((uint8_t) v), o.getPayloadType()),
        FLD(T, "PayloadLength", 16, 14, 2, 0, o.setPayloadLength((uint16_t) v), o.getPayloadLength()),
    };
    const std::pair<const char*, uint8_t> flags[] = {{"recalc", 0x01}, {"insync", 0x02}, {"diOnIf", 0x10}, {"overflow", 0x20}, {"errorInPayload", 0x40}};
    for (auto& f : flags)
    {
        uint8_t m = f.second;
        int sh = __builtin_ctz(m);
        c.fields.push_back(Field<T>{std::string("CommonFlag(") + f.first + ")", 1, 12, 1, sh, [m](T& o, uint64_t v) { o.setCommonFlag(static_cast<T::CommonFlags>(m), v != 0); },
                                    [m](const T& o) -> uint64_t { return o.getCommonFlag(static_cast<T::CommonFlags>(m)); }, {}, false, {}});
    }
    return c;
}

// PayloadType has no byte image; its 32-bit type word is used as a pseudo image (BE)
static inline Cls<A::PayloadType> payloadType()
{
    using T = A::PayloadType;
    Cls<T> c;
    c.name = "PayloadType"; c.hdrSize = 4;
    c.dflt = [] { return T(0u); };
    c.fromRaw = [](const Bytes& b) { return T((uint32_t) ref::rd(b.data(), 4)); };
    c.raw = [](const T& t) { Bytes b; ref::put32(b, t.getType()); return b; };
    c.size = [](const T&) { return (size_t) 4; };
    c.fields = {
        FLD(T, "Type", 32, 0, 4, 0, o.setType((uint32_t) v), o.getType()),
        FLD(T, "MessageType", 8, 0, 4, 8, o.setMessageType(static_cast<A::CmpHeader::MessageType>(v)), o.getMessageType()),
        FLD(T, "RawPayloadType", 8, 0, 4, 0, o.setRawPayloadType((uint8_t) v), o.getRawPayloadType()),
    };
    return c;
}

static const std::vector<std::pair<const char*, uint16_t>> kCanFlags = {
    {"crcErr", 0x0001}, {"ackErr", 0x0002}, {"passiveAckErr", 0x0004}, {"activeAckErr", 0x0008}, {"ackDelErr", 0x0010}, {"formErr", 0x0020}, {"stuffErr", 0x0040},
    {"crcDelErr", 0x0080}, {"eofErr", 0x0100}, {"bitErr", 0x0200}, {"r0", 0x0400}, {"srrDom", 0x0800}, {"brs", 0x1000}, {"esi", 0x2000}};
static const std::vector<std::pair<const char*, uint16_t>> kLinFlags = {{"checksumErr", 0x0001}, {"collisionErr", 0x0002}, {"parityErr", 0x0004}, {"noSlaveRespErr", 0x0008},
                                                                        {"syncErr", 0x0010}, {"framingErr", 0x0020}, {"shortDomErr", 0x0040}, {"longDomErr", 0x0080}, {"wup", 0x0100}};
static const std::vector<std::pair<const char*, uint16_t>> kEthFlags = {{"fcsErr", 0x0001}, {"frameShorterThan64b", 0x0002}, {"txPortDown", 0x0004}, {"collision", 0x0008},
                                                                        {"frameTooLongErr", 0x0010}, {"phyErr", 0x0020}, {"frameTruncated", 0x0040}, {"fcsSupport", 0x0080}};

template <class T, class FlagEnum>
static void addFlags(Cls<T>& c, const std::vector<std::pair<const char*, uint16_t>>& flags)
{
    for (auto& f : flags)
    {
        uint16_t m = f.second;
        int sh = __builtin_ctz(m);
        c.fields.push_back(Field<T>{std::string("Flag(") + f.first + ")", 1, 0, 2, sh, [m](T& o, uint64_t v) { o.setFlag(static_cast<FlagEnum>(m), v != 0); },
                                    [m](const T& o) -> uint64_t { return o.getFlag(static_cast<FlagEnum>(m)); }, {}, false, {}});
    }
}

static inline Cls<A::CanPayloadBase::Header> canHeader()
{
    using T = A::CanPayloadBase::Header;
    Cls<T> c;
    c.name = "CanPayloadBase::Header"; c.hdrSize = 16;
    c.dflt = [] { return T(); }; c.fromRaw = podFromRaw<T>(); c.raw = podRaw<T>(); c.size = [](const T&) { return sizeof(T); };
    c.fields = {
        FLD(T, "Flags", 16, 0, 2, 0, o.setFlags((uint16_t) v), o.getFlags()),
        FLD(T, "Id", 29, 4, 4, 0, o.setId((uint32_t) v), o.getId()),
        FLD(T, "Rsvd", 1, 4, 4, 29, o.setRsvd(v != 0), o.getRsvd()),
        FLD(T, "RtrRrs", 1, 4, 4, 30, o.setRtrRrs(v != 0), o.getRtrRrs()),
        FLD(T, "Ide", 1, 4, 4, 31, o.setIde(v != 0), o.getIde()),
        FLD(T, "Crc", 15, 8, 4, 0, o.setCrc((uint16_t) v), o.getCrc()),
        FLD(T, "CrcSbc", 21, 8, 4, 0, o.setCrcSbc((uint32_t) v), o.getCrcSbc()),
        FLD(T, "Sbc", 3, 8, 4, 21, o.setSbc((uint8_t) v), o.getSbc()),
        FLD(T, "SbcParity", 1, 8, 4, 24, o.setSbcParity(v != 0), o.getSbcParity()),
        FLD(T, "SbcSupport", 1, 8, 4, 30, o.setSbcSupport(v != 0), o.getSbcSupport()),
        FLD(T, "CrcSupport", 1, 8, 4, 31, o.setCrcSupport(v != 0), o.getCrcSupport()),
        FLD(T, "ErrorPosition", 16, 12, 2, 0, o.setErrorPosition((uint16_t) v), o.getErrorPosition()),
        FLD(T, "Dlc", 8, 14, 1, 0, o.setDlc((uint8_t) v), o.getDlc()),
        FLD(T, "DataLength", 8, 15, 1, 0, o.setDataLength((uint8_t) v), o.getDataLength()),
    };
    addFlags<T, A::CanPayloadBase::Flags>(c, kCanFlags);
    c.reserved = {{2, 0xFF}, {3, 0xFF}, {8, 0x3E}};   // crc word bits 29..25
    return c;
}

// Every payload class also carries the two fields of its base class, the payload's TYPE (message type, raw payload type byte): public,
// writable, without a place in the raw image. Writing them changes no other field and no raw byte, and no other write changes them.
template <class T>
static inline void addPayloadBase(Cls<T>& c)
{
    Field<T> rt;
    rt.name = "RawPayloadType"; rt.bits = 8; rt.off = -1; rt.width = 0; rt.shift = 0;
    rt.set = [](T& o, uint64_t v) { o.setRawPayloadType((uint8_t) v); };
    rt.get = [](const T& o) { return (uint64_t) o.getRawPayloadType(); };
    c.fields.push_back(rt);
    Field<T> mt;
    mt.name = "MessageType"; mt.bits = 8; mt.off = -1; mt.width = 0; mt.shift = 0;
    mt.set = [](T& o, uint64_t v) { o.setMessageType(static_cast<A::CmpHeader::MessageType>(v)); };
    mt.get = [](const T& o) { return (uint64_t) o.getMessageType(); };
    mt.values = {0, 1, 2, 3, 0xFF};
    c.fields.push_back(mt);
}

static inline Cls<A::CanPayload> canPayload()
{
    using T = A::CanPayload;
    Cls<T> c;
    c.name = "CanPayload"; c.hdrSize = 16; c.hasData = true;
    c.dflt = [] { return T(); }; c.fromRaw = payloadFromRaw<T>(); c.raw = payloadRaw<T>(); c.size = [](const T& t) { return t.getLength(); };
    c.fields = {
        FLD(T, "Flags", 16, 0, 2, 0, o.setFlags((uint16_t) v), o.getFlags()),
        FLD(T, "Id", 29, 4, 4, 0, o.setId((uint32_t) v), o.getId()),
        FLD(T, "Rsvd", 1, 4, 4, 29, o.setRsvd(v != 0), o.getRsvd()),
        FLD(T, "Rtr", 1, 4, 4, 30, o.setRtr(v != 0), o.getRtr()),
        FLD(T, "Ide", 1, 4, 4, 31, o.setIde(v != 0), o.getIde()),
        FLD(T, "Crc", 15, 8, 4, 0, o.setCrc((uint16_t) v), o.getCrc()),
        FLD(T, "CrcSupport", 1, 8, 4, 31, o.setCrcSupport(v != 0), o.getCrcSupport()),
        FLD(T, "ErrorPosition", 16, 12, 2, 0, o.setErrorPosition((uint16_t) v), o.getErrorPosition()),
    };
    addFlags<T, A::CanPayloadBase::Flags>(c, kCanFlags);
    c.reserved = {{2, 0xFF}, {3, 0xFF}, {8, 0x7F}, {9, 0xFF}, {10, 0x80}};   // CAN: crc word bits 30..15
    c.consistent = [](int extra) {
        T t;
        Bytes d((size_t) extra, 0x5A);
        t.setId(0x123);
        t.setData(d.data(), (uint8_t) d.size());   // DLC and data length match the data
        return t;
    };
    addPayloadBase<T>(c);
    return c;
}

static inline Cls<A::CanFdPayload> canFdPayload()
{
    using T = A::CanFdPayload;
    Cls<T> c;
    c.name = "CanFdPayload"; c.hdrSize = 16; c.hasData = true;
    c.dflt = [] { return T(); }; c.fromRaw = payloadFromRaw<T>(); c.raw = payloadRaw<T>(); c.size = [](const T& t) { return t.getLength(); };
    c.fields = {
        FLD(T, "Flags", 16, 0, 2, 0, o.setFlags((uint16_t) v), o.getFlags()),
        FLD(T, "Id", 29, 4, 4, 0, o.setId((uint32_t) v), o.getId()),
        FLD(T, "Rsvd", 1, 4, 4, 29, o.setRsvd(v != 0), o.getRsvd()),
        FLD(T, "Rrs", 1, 4, 4, 30, o.setRrs(v != 0), o.getRrs()),
        FLD(T, "Ide", 1, 4, 4, 31, o.setIde(v != 0), o.getIde()),
        FLD(T, "Crc", 21, 8, 4, 0, o.setCrc((uint32_t) v), o.getCrc()),
        FLD(T, "Sbc", 3, 8, 4, 21, o.setSbc((uint8_t) v), o.getSbc()),
        FLD(T, "SbcParity", 1, 8, 4, 24, o.setSbcParity(v != 0), o.getSbcParity()),
        FLD(T, "SbcSupport", 1, 8, 4, 30, o.setSbcSupport(v != 0), o.getSbcSupport()),
        FLD(T, "CrcSupport", 1, 8, 4, 31, o.setCrcSupport(v != 0), o.getCrcSupport()),
        FLD(T, "ErrorPosition", 16, 12, 2, 0, o.setErrorPosition((uint16_t) v), o.getErrorPosition()),
    };
    addFlags<T, A::CanPayloadBase::Flags>(c, kCanFlags);
    c.reserved = {{2, 0xFF}, {3, 0xFF}, {8, 0x3E}};
    c.consistent = [](int extra) {
        T t;
        Bytes d((size_t) extra, 0x5A);
        t.setId(0x123);
        t.setData(d.data(), (uint8_t) d.size());   // DLC and data length match the data
        return t;
    };
    addPayloadBase<T>(c);
    return c;
}

static inline Cls<A::LinPayload::Header> linHeader()
{
    using T = A::LinPayload::Header;
    Cls<T> c;
    c.name = "LinPayload::Header"; c.hdrSize = 8;
    c.dflt = [] { return T(); }; c.fromRaw = podFromRaw<T>(); c.raw = podRaw<T>(); c.size = [](const T&) { return sizeof(T); };
    c.fields = {
        FLD(T, "Flags", 16, 0, 2, 0, o.setFlags((uint16_t) v), o.getFlags()),
        FLD(T, "LinId", 6, 4, 1, 0, o.setLinId((uint8_t) v), o.getLinId()),
        FLD(T, "ParityBits", 2, 4, 1, 6, o.setParityBits((uint8_t) v), o.getParityBits()),
        FLD(T, "Checksum", 8, 6, 1, 0, o.setChecksum((uint8_t) v), o.getChecksum()),
        FLD(T, "DataLength", 8, 7, 1, 0, o.setDataLength((uint8_t) v), o.getDataLength()),
    };
    addFlags<T, A::LinPayload::Flags>(c, kLinFlags);
    c.reserved = {{2, 0xFF}, {3, 0xFF}, {5, 0xFF}};
    c.consistent = [](int) { T t; t.setLinId(0x2A); t.setParityBits(0x1); return t; };   // protected id 0x6A: P0 = 1, P1 = 0 is the valid parity of id 0x2A
    return c;
}

static inline Cls<A::LinPayload> linPayload()
{
    using T = A::LinPayload;
    Cls<T> c;
    c.name = "LinPayload"; c.hdrSize = 8; c.hasData = true;
    c.dflt = [] { return T(); }; c.fromRaw = payloadFromRaw<T>(); c.raw = payloadRaw<T>(); c.size = [](const T& t) { return t.getLength(); };
    c.fields = {
        FLD(T, "Flags", 16, 0, 2, 0, o.setFlags((uint16_t) v), o.getFlags()),
        FLD(T, "LinId", 6, 4, 1, 0, o.setLinId((uint8_t) v), o.getLinId()),
        FLD(T, "ParityBits", 2, 4, 1, 6, o.setParityBits((uint8_t) v), o.getParityBits()),
        FLD(T, "Checksum", 8, 6, 1, 0, o.setChecksum((uint8_t) v), o.getChecksum()),
    };
    addFlags<T, A::LinPayload::Flags>(c, kLinFlags);
    c.reserved = {{2, 0xFF}, {3, 0xFF}, {5, 0xFF}};
    c.consistent = [](int extra) {
        T t;
        t.setLinId(0x2A); t.setParityBits(0x1);   // valid parity of id 0x2A
        Bytes d((size_t) extra);
        unsigned sum = 0;
        for (size_t i = 0; i < d.size(); ++i)
        {
            d[i] = (uint8_t) (0x31 + 7 * i);
            sum += d[i];
            if (sum > 0xFF)
                sum -= 0xFF;
        }
        t.setData(d.data(), (uint8_t) d.size());
        t.setChecksum((uint8_t) ~sum);            // the classic LIN checksum of the data held
        return t;
    };
    addPayloadBase<T>(c);
    return c;
}

static inline Cls<A::EthernetPayload::Header> ethHeader()
{
    using T = A::EthernetPayload::Header;
    Cls<T> c;
    c.name = "EthernetPayload::Header"; c.hdrSize = 6;
    c.dflt = [] { return T(); }; c.fromRaw = podFromRaw<T>(); c.raw = podRaw<T>(); c.size = [](const T&) { return sizeof(T); };
    c.fields = {
        FLD(T, "Flags", 16, 0, 2, 0, o.setFlags((uint16_t) v), o.getFlags()),
        FLD(T, "DataLength", 16, 4, 2, 0, o.setDataLength((uint16_t) v), o.getDataLength()),
    };
    addFlags<T, A::EthernetPayload::Flags>(c, kEthFlags);
    c.reserved = {{2, 0xFF}, {3, 0xFF}};
    return c;
}

static inline Cls<A::EthernetPayload> ethPayload()
{
    using T = A::EthernetPayload;
    Cls<T> c;
    c.name = "EthernetPayload"; c.hdrSize = 6; c.hasData = true;
    c.dflt = [] { return T(); }; c.fromRaw = payloadFromRaw<T>(); c.raw = payloadRaw<T>(); c.size = [](const T& t) { return t.getLength(); };
    c.fields = {
        FLD(T, "Flags", 16, 0, 2, 0, o.setFlags((uint16_t) v), o.getFlags()),
    };
    addFlags<T, A::EthernetPayload::Flags>(c, kEthFlags);
    c.reserved = {{2, 0xFF}, {3, 0xFF}};
    addPayloadBase<T>(c);
    return c;
}

static const std::vector<uint64_t> kFloatBits = {0x00000000, 0x80000000, 0x3F800000, 0xBF800000, 0x3F000000, 0x40490FDB, 0x7F800000, 0xFF800000, 0x00000001, 0x807FFFFF,
                                                 0x7F7FFFFF, 0x00800000, 0x01020304, 0x04030201, 0x00FF0000, 0x0000FF00, 0x000000FF, 0x7F000000};

template <class T>
static void analogFields(Cls<T>& c)
{
    using AP = A::AnalogPayload;
    c.fields = {
        FLD(T, "Flags", 16, 0, 2, 0, o.setFlags((uint16_t) v), o.getFlags()),
        FLD(T, "SampleDt", 2, 0, 2, 0, o.setSampleDt(static_cast<AP::SampleDt>(sw16((uint16_t) v))), sw16((uint16_t) o.getSampleDt())),
        FLD(T, "Unit", 8, 3, 1, 0, o.setUnit(static_cast<AP::Unit>(v)), o.getUnit()),
        FLD(T, "SampleInterval", 32, 4, 4, 0, o.setSampleInterval(u2f(v)), f2u(o.getSampleInterval())),
        FLD(T, "SampleOffset", 32, 8, 4, 0, o.setSampleOffset(u2f(v)), f2u(o.getSampleOffset())),
        FLD(T, "SampleScalar", 32, 12, 4, 0, o.setSampleScalar(u2f(v)), f2u(o.getSampleScalar())),
    };
    c.fields[1].values = {0, 1};   // int16, int32
    for (int i = 3; i <= 5; ++i)
    {
        c.fields[i].isFloat = true;
        c.fields[i].values = kFloatBits;
    }
    c.reserved = {{2, 0xFF}, {1, 0xFC}, {0, 0xFF}};   // reserved byte; flag bits other than the sample type
}

static inline Cls<A::AnalogPayload::Header> analogHeader()
{
    using T = A::AnalogPayload::Header;
    Cls<T> c;
    c.name = "AnalogPayload::Header"; c.hdrSize = 16;
    c.dflt = [] { return T(); }; c.fromRaw = podFromRaw<T>(); c.raw = podRaw<T>(); c.size = [](const T&) { return sizeof(T); };
    analogFields(c);
    return c;
}
static inline Cls<A::AnalogPayload> analogPayload()
{
    using T = A::AnalogPayload;
    Cls<T> c;
    c.name = "AnalogPayload"; c.hdrSize = 16; c.hasData = true;
    c.dflt = [] { return T(); }; c.fromRaw = payloadFromRaw<T>(); c.raw = payloadRaw<T>(); c.size = [](const T& t) { return t.getLength(); };
    analogFields(c);
    addPayloadBase<T>(c);
    return c;
}

template <class T>
static void cmFields(Cls<T>& c)
{
    c.fields = {
        FLD(T, "Uptime", 64, 0, 8, 0, o.setUptime(v), o.getUptime()),
        FLD(T, "GmIdentity", 64, 8, 8, 0, o.setGmIdentity(v), o.getGmIdentity()),
        FLD(T, "GmClockQuality", 32, 16, 4, 0, o.setGmClockQuality((uint32_t) v), o.getGmClockQuality()),
        FLD(T, "CurrentUtcOffset", 16, 20, 2, 0, o.setCurrentUtcOffset((uint16_t) v), o.getCurrentUtcOffset()),
        FLD(T, "TimeSource", 8, 22, 1, 0, o.setTimeSource((uint8_t) v), o.getTimeSource()),
        FLD(T, "DomainNumber", 8, 23, 1, 0, o.setDomainNumber((uint8_t) v), o.getDomainNumber()),
        FLD(T, "GptpFlags", 8, 25, 1, 0, o.setGptpFlags((uint8_t) v), o.getGptpFlags()),
    };
    c.reserved = {{24, 0xFF}};
}
static inline Cls<A::CaptureModulePayload::Header> cmHeader()
{
    using T = A::CaptureModulePayload::Header;
    Cls<T> c;
    c.name = "CaptureModulePayload::Header"; c.hdrSize = 26;
    c.dflt = [] { return T(); }; c.fromRaw = podFromRaw<T>(); c.raw = podRaw<T>(); c.size = [](const T&) { return sizeof(T); };
    cmFields(c);
    return c;
}
static inline Cls<A::CaptureModulePayload> cmPayload()
{
    using T = A::CaptureModulePayload;
    Cls<T> c;
    c.name = "CaptureModulePayload"; c.hdrSize = 36;   // header 26 + five empty length fields
    c.dflt = [] { return T(); }; c.fromRaw = payloadFromRaw<T>(); c.raw = payloadRaw<T>(); c.size = [](const T& t) { return t.getLength(); };
    cmFields(c);
    addPayloadBase<T>(c);
    return c;
}

template <class T>
static void ifFields(Cls<T>& c)
{
    using IP = A::InterfacePayload;
    c.fields = {
        FLD(T, "InterfaceId", 32, 0, 4, 0, o.setInterfaceId((uint32_t) v), o.getInterfaceId()),
        FLD(T, "MsgTotalRx", 32, 4, 4, 0, o.setMsgTotalRx((uint32_t) v), o.getMsgTotalRx()),
        FLD(T, "MsgTotalTx", 32, 8, 4, 0, o.setMsgTotalTx((uint32_t) v), o.getMsgTotalTx()),
        FLD(T, "MsgDroppedRx", 32, 12, 4, 0, o.setMsgDroppedRx((uint32_t) v), o.getMsgDroppedRx()),
        FLD(T, "MsgDroppedTx", 32, 16, 4, 0, o.setMsgDroppedTx((uint32_t) v), o.getMsgDroppedTx()),
        FLD(T, "ErrorsTotalRx", 32, 20, 4, 0, o.setErrorsTotalRx((uint32_t) v), o.getErrorsTotalRx()),
        FLD(T, "ErrorsTotalTx", 32, 24, 4, 0, o.setErrorsTotalTx((uint32_t) v), o.getErrorsTotalTx()),
        FLD(T, "InterfaceType", 8, 28, 1, 0, o.setInterfaceType((uint8_t) v), o.getInterfaceType()),
        FLD(T, "InterfaceStatus", 8, 29, 1, 0, o.setInterfaceStatus(static_cast<IP::InterfaceStatus>(v)), o.getInterfaceStatus()),
        FLD(T, "FeatureSupportBitmask", 32, 32, 4, 0, o.setFeatureSupportBitmask((uint32_t) v), o.getFeatureSupportBitmask()),
    };
    c.fields[8].values = {0, 1, 2};
    c.reserved = {{30, 0xFF}, {31, 0xFF}};
}
static inline Cls<A::InterfacePayload::Header> ifHeader()
{
    using T = A::InterfacePayload::Header;
    Cls<T> c;
    c.name = "InterfacePayload::Header"; c.hdrSize = 36;
    c.dflt = [] { return T(); }; c.fromRaw = podFromRaw<T>(); c.raw = podRaw<T>(); c.size = [](const T&) { return sizeof(T); };
    ifFields(c);
    return c;
}
static inline Cls<A::InterfacePayload> ifPayload()
{
    using T = A::InterfacePayload;
    Cls<T> c;
    c.name = "InterfacePayload"; c.hdrSize = 40;   // header 36 + two empty length fields
    c.dflt = [] { return T(); }; c.fromRaw = payloadFromRaw<T>(); c.raw = payloadRaw<T>(); c.size = [](const T& t) { return t.getLength(); };
    ifFields(c);
    addPayloadBase<T>(c);
    return c;
}

// ---- TECMP --------------------------------------------------------------------------------------
static inline Cls<TECMP::CmpHeader> tecmpHeader()
{
    using T = TECMP::CmpHeader;
    Cls<T> c;
    c.name = "TECMP::CmpHeader"; c.hdrSize = 28;
    c.dflt = [] { return T(); }; c.fromRaw = podFromRaw<T>(); c.raw = podRaw<T>(); c.size = [](const T&) { return sizeof(T); };
    c.fields = {
        FLD(T, "DeviceId", 8, 0, 2, 0, o.setDeviceId((uint8_t) v), o.getDeviceId()),   // 16 bit on the wire, API is the low byte, image 00 vv
        FLD(T, "SequenceCounter", 16, 2, 2, 0, o.setSequenceCounter((uint16_t) v), o.getSequenceCounter()),
        FLD(T, "Version", 8, 4, 1, 0, o.setVersion((uint8_t) v), o.getVersion()),
        FLD(T, "MessageType", 8, 5, 1, 0, o.setMessageType(static_cast<T::MessageType>(v)), o.getMessageType()),
        FLD(T, "DataType", 16, 6, 2, 0, o.setDataType(static_cast<T::DataType>(v)), o.getDataType()),
        FLD(T, "DeviceFlags", 16, 10, 2, 0, o.setDeviceFlags((uint16_t) v), o.getDeviceFlags()),
        FLD(T, "InterfaceId", 32, 12, 4, 0, o.setInterfaceId((uint32_t) v), o.getInterfaceId()),
        FLD(T, "Timestamp", 64, 16, 8, 0, o.setTimestamp(v), o.getTimestamp()),
        FLD(T, "PayloadLength", 16, 24, 2, 0, o.setPayloadLength((uint16_t) v), o.getPayloadLength()),
    };
    c.reserved = {{0, 0xFF}, {8, 0xFF}, {9, 0xFF}};
    return c;
}

static inline Cls<TECMP::CanPayload> tecmpCan()
{
    using T = TECMP::CanPayload;
    Cls<T> c;
    c.name = "TECMP::CanPayload"; c.hdrSize = 5; c.hasData = true;
    c.dflt = [] { return T(); }; c.fromRaw = payloadFromRaw<T>(); c.raw = payloadRaw<T>(); c.size = [](const T& t) { return t.getLength(); };
    c.fields = {
        FLD(T, "ArbId", 32, 0, 4, 0, o.setArbId((uint32_t) v), o.getArbId()),
        FLD(T, "Dlc", 8, 4, 1, 0, o.setDlc((uint8_t) v), o.getDlc()),
    };
    return c;
}
static inline Cls<TECMP::LinPayload> tecmpLin()
{
    using T = TECMP::LinPayload;
    Cls<T> c;
    c.name = "TECMP::LinPayload"; c.hdrSize = 2; c.hasData = true;
    c.dflt = [] { return T(); }; c.fromRaw = payloadFromRaw<T>(); c.raw = payloadRaw<T>(); c.size = [](const T& t) { return t.getLength(); };
    c.fields = {
        FLD(T, "Pid", 8, 0, 1, 0, o.setPid((uint8_t) v), o.getPid()),
        FLD(T, "DataLength", 8, 1, 1, 0, o.setDataLength((uint8_t) v), o.getDataLength()),
    };
    return c;
}
static inline Cls<TECMP::InterfacePayload> tecmpIf()
{
    using T = TECMP::InterfacePayload;
    Cls<T> c;
    c.name = "TECMP::InterfacePayload"; c.hdrSize = 28;
    c.dflt = [] { return T(); }; c.fromRaw = payloadFromRaw<T>(); c.raw = payloadRaw<T>(); c.size = [](const T& t) { return t.getLength(); };
    c.fields = {
        FLD(T, "VendorId", 8, 0, 1, 0, o.setVendorId((uint8_t) v), o.getVendorId()),
        FLD(T, "CmVersion", 8, 1, 1, 0, o.setCmVersion((uint8_t) v), o.getCmVersion()),
        FLD(T, "CmType", 8, 2, 1, 0, o.setCmType((uint8_t) v), o.getCmType()),
        FLD(T, "VendorDataLength", 16, 4, 2, 0, o.setVendorDataLength((uint16_t) v), o.getVendorDataLength()),
        FLD(T, "DeviceId", 16, 6, 2, 0, o.setDeviceId((uint16_t) v), o.getDeviceId()),
        FLD(T, "SerialNumber", 32, 8, 4, 0, o.setSerialNumber((uint32_t) v), o.getSerialNumber()),
        FLD(T, "InterfaceId", 32, 12, 4, 0, o.setInterfaceId((uint32_t) v), o.getInterfaceId()),
        FLD(T, "MessagesTotal", 32, 16, 4, 0, o.setMessagesTotal((uint32_t) v), o.getMessagesTotal()),
        FLD(T, "ErrorsTotal", 32, 20, 4, 0, o.setErrorsTotal((uint32_t) v), o.getErrorsTotal()),
        FLD(T, "VendorDataLinkStatus", 8, 24, 1, 0, o.setVendorDataLinkStatus((uint8_t) v), o.getVendorDataLinkStatus()),
        FLD(T, "VendorDataLinkQuality", 8, 25, 1, 0, o.setVendorDataLinkQuality((uint8_t) v), o.getVendorDataLinkQuality()),
        FLD(T, "VendorDataLinkupTime", 16, 26, 2, 0, o.setVendorDataLinkupTime((uint16_t) v), o.getVendorDataLinkupTime()),
    };
    c.reserved = {{3, 0xFF}};
    return c;
}
static inline Cls<TECMP::CaptureModulePayload> tecmpCm()
{
    using T = TECMP::CaptureModulePayload;
    Cls<T> c;
    c.name = "TECMP::CaptureModulePayload"; c.hdrSize = 36;
    c.dflt = [] { return T(); }; c.fromRaw = payloadFromRaw<T>(); c.raw = payloadRaw<T>(); c.size = [](const T& t) { return t.getLength(); };
    c.fields = {
        FLD(T, "VendorId", 8, 0, 1, 0, o.setVendorId((uint8_t) v), o.getVendorId()),
        FLD(T, "DeviceVersion", 8, 1, 1, 0, o.setDeviceVersion((uint8_t) v), o.getDeviceVersion()),
        FLD(T, "DeviceType", 8, 2, 1, 0, o.setDeviceType((uint8_t) v), o.getDeviceType()),
        FLD(T, "VendorDataLength", 16, 4, 2, 0, o.setVendorDataLength((uint16_t) v), o.getVendorDataLength()),
        FLD(T, "DeviceId", 16, 6, 2, 0, o.setDeviceId((uint16_t) v), o.getDeviceId()),
        FLD(T, "SerialNumber", 32, 8, 4, 0, o.setSerialNumber((uint32_t) v), o.getSerialNumber()),
        FLD(T, "SwVersionMajor", 8, 13, 1, 0, o.setSwVersionMajor((uint8_t) v), o.getSwVersionMajor()),
        FLD(T, "SwVersionMinor", 8, 14, 1, 0, o.setSwVersionMinor((uint8_t) v), o.getSwVersionMinor()),
        FLD(T, "SwVersionPatch", 8, 15, 1, 0, o.setSwVersionPatch((uint8_t) v), o.getSwVersionPatch()),
        FLD(T, "HwVersionMajor", 8, 16, 1, 0, o.setHwVersionMajor((uint8_t) v), o.getHwVersionMajor()),
        FLD(T, "HwVersionMinor", 8, 17, 1, 0, o.setHwVersionMinor((uint8_t) v), o.getHwVersionMinor()),
        FLD(T, "BufferFill", 8, 18, 1, 0, o.setBufferFill((uint8_t) v), o.getBufferFill()),
        FLD(T, "IsBufferOverflow", 8, 19, 1, 0, o.setIsBufferOverflow((uint8_t) v), o.getIsBufferOverflow()),
        FLD(T, "BufferSize", 32, 20, 4, 0, o.setBufferSize((uint32_t) v), o.getBufferSize()),
        FLD(T, "Lifecycle", 64, 24, 8, 0, o.setLifecycle(v), o.getLifecycle()),
        FLD(T, "VoltageWhole", 8, 32, 1, 0, o.setVoltageWhole((uint8_t) v), o.getVoltageWhole()),
        FLD(T, "VoltageFraction", 8, 33, 1, 0, o.setVoltageFraction((uint8_t) v), o.getVoltageFraction()),
        FLD(T, "ChassisTemp", 8, 34, 1, 0, o.setChassisTemp((uint8_t) v), o.getChassisTemp()),
        FLD(T, "SilliconTemp", 8, 35, 1, 0, o.setSilliconTemp((uint8_t) v), o.getSilliconTemp()),
    };
    c.reserved = {{3, 0xFF}, {12, 0xFF}};
    c.assumptions = {"TECMP capture-module status: the order of the two temperature bytes (chassis at offset 34, silicon at 35) could not be cross-checked against a second source"};
    return c;
}

}  // namespace tbl
