// Shared pieces of engine `wire`: message alphabet (independent builder), reference expectation
// for a CMP buffer, typed accessor sweep with view-bounds checks, decoder pre-states.
#pragma once
#include <asam_cmp/analog_payload.h>
#include <asam_cmp/can_fd_payload.h>
#include <asam_cmp/can_payload.h>
#include <asam_cmp/capture_module_payload.h>
#include <asam_cmp/decoder.h>
#include <asam_cmp/ethernet_payload.h>
#include <asam_cmp/interface_payload.h>
#include <asam_cmp/lin_payload.h>

#include <cstdarg>

#include "engines/libobs.h"
#include "mc/harness.h"
#include "ref/payloads.h"
#include "ref/wire.h"

using namespace ASAM::CMP;
using mc::W;
using ref::Bytes;

static inline std::string fmt(const char* f, ...)
{
    char b[3072];
    va_list ap;
    va_start(ap, f);
    vsnprintf(b, sizeof b, f, ap);
    va_end(ap);
    return b;
}

static inline Bytes patt(size_t len, unsigned tag)
{
    Bytes b(len);
    for (size_t i = 0; i < len; ++i)
        b[i] = (uint8_t) (i * 13u + tag * 37u + 0x41u);
    return b;
}

// ---------------------------------------------------------------------------------------------
// Message alphabet (C04 / C02 seeds). Every message has distinctive timestamp / id / flags.
struct MsgDef
{
    std::string name;
    ref::Msg m;
};

static inline std::vector<MsgDef> messageAlphabet()
{
    std::vector<MsgDef> a;
    unsigned n = 0;
    auto add = [&](const std::string& name, uint8_t pt, const Bytes& body, uint8_t flags = 0) {
        ref::Msg m = ref::mkMsg(pt, body, flags, 0x0102030405060000ull + n * 0x101, 0xA1B2C300u + n);
        a.push_back({name, m});
        ++n;
        return &a.back().m;
    };
    using namespace ref;
    // consistent typed payloads (typed under data / status frames, generic bytes under other frame types)
    { CanF f; f.idword = 0x123; add("can0", PT_CAN, canPayload(f)); }
    { CanF f; f.idword = 0x9FFFFFFFu; f.crcword = 0x80001234u; f.dlc = 8; f.dataLen = 8; f.data = patt(8, 1); add("can8", PT_CAN, canPayload(f)); }
    { CanF f; f.flags = 0x3000; f.idword = 0x55; f.dlc = 9; f.dataLen = 12; f.data = patt(12, 2); add("canfd12", PT_CANFD, canPayload(f)); }
    { CanF f; f.idword = 0x1FFFFFFF; f.crcword = 0xC1A54321u; f.dlc = 15; f.dataLen = 64; f.data = patt(64, 3); add("canfd64", PT_CANFD, canPayload(f)); }
    { LinF f; f.pid = 0x21; add("lin0", PT_LIN, linPayload(f)); }
    { LinF f; f.pid = 0xBF; f.checksum = 0xA5; f.dataLen = 8; f.data = patt(8, 4); add("lin8", PT_LIN, linPayload(f)); }
    { AnalogF f; f.unit = 0x10; f.interval = 0x3F000000; f.samples = patt(8, 5); add("analog16x4", PT_ANALOG, analogPayload(f)); }
    { AnalogF f; f.flags = 1; f.scalar = 0x40000000; f.samples = patt(12, 6); add("analog32x3", PT_ANALOG, analogPayload(f)); }
    { EthF f; add("eth0", PT_ETH, ethPayload(f)); }
    { EthF f; f.flags = 0x0080; f.dataLen = 46; f.data = patt(46, 7); add("eth46", PT_ETH, ethPayload(f)); }
    { CmF f; f.uptime = 0x1122334455667788ull; for (int i = 0; i < 4; ++i) f.s[i] = strSection(""); add("cm-empty-strings", PT_CM, cmPayload(f)); }
    { CmF f; f.gmIdentity = 0xA1A2A3A4A5A6A7A8ull; f.s[0] = strSection("device"); f.s[1] = strSection("sn1"); f.s[2] = strSection("hw"); f.s[3] = strSection("sw-1.2");
      f.s[4].declared = 3; f.s[4].bytes = {9, 8, 7}; add("cm-strings-vendor3", PT_CM, cmPayload(f)); }
    { IfF f; f.ifid = 0x11223344; f.c[0] = 77; add("if-0-0", PT_IF, ifPayload(f)); }
    { IfF f; f.ifid = 5; f.status = 1; f.streamDeclared = 3; f.streams = {1, 2, 3, 0}; f.vendorDeclared = 5; f.vendor = {9, 8, 7, 6, 5}; add("if-3-5", PT_IF, ifPayload(f)); }
    // inner lengths at the byte / sign boundaries (0x7F -> 0x80, 0xFF -> 0x100) and with a low byte >= 0x80
    { CmF f; f.uptime = 5; f.s[0] = strSection(std::string(127, 'd')); f.s[1] = strSection(std::string(253, 's')); f.s[2] = strSection(std::string(255, 'h'));
      f.s[3] = strSection(std::string(129, 'w')); f.s[4].declared = 384; f.s[4].bytes = patt(384, 70); add("cm-sections-128-254-256-130-384", PT_CM, cmPayload(f)); }
    { CmF f; for (int i = 0; i < 4; ++i) f.s[i] = strSection("ab"); f.s[4].declared = 200; f.s[4].bytes = patt(200, 71); add("cm-vendor200", PT_CM, cmPayload(f)); }
    { IfF f; f.ifid = 6; f.status = 1; f.streamDeclared = 129; f.streams = patt(130, 72); f.streams[129] = 0; f.vendorDeclared = 255; f.vendor = patt(255, 73); add("if-129-255", PT_IF, ifPayload(f)); }
    { IfF f; f.ifid = 7; f.status = 1; f.streamDeclared = 256; f.streams = patt(256, 74); f.vendorDeclared = 128; f.vendor = patt(128, 75); add("if-256-128", PT_IF, ifPayload(f)); }
    { EthF f; f.dataLen = 128; f.data = patt(128, 76); add("eth128", PT_ETH, ethPayload(f)); }
    { EthF f; f.dataLen = 1500; f.data = patt(1500, 77); add("eth1500", PT_ETH, ethPayload(f)); }
    { AnalogF f; f.samples = patt(128, 78); add("analog16x64", PT_ANALOG, analogPayload(f)); }
    { AnalogF f; f.flags = 1; f.samples = patt(256, 79); add("analog32x64", PT_ANALOG, analogPayload(f)); }
    add("generic5", 0xFE, patt(5, 8));
    add("generic0", 0xFE, Bytes{});
    // inner lengths inconsistent with the payload
    { CanF f; f.dataLen = 9; f.dlc = 8; f.data = patt(8, 9); add("can-len+1", PT_CAN, canPayload(f)); }
    { CanF f; f.dataLen = 0xFF; f.data = patt(8, 10); add("can-len255", PT_CAN, canPayload(f)); }
    { CanF f; Bytes b = canPayload(f); b.resize(15); add("can-short15", PT_CAN, b); }
    { CanF f; f.dataLen = 13; f.data = patt(12, 11); add("canfd-len+1", PT_CANFD, canPayload(f)); }
    { LinF f; f.dataLen = 9; f.data = patt(8, 12); add("lin-len+1", PT_LIN, linPayload(f)); }
    { LinF f; f.dataLen = 200; f.data = patt(8, 13); add("lin-len200", PT_LIN, linPayload(f)); }
    { LinF f; Bytes b = linPayload(f); b.resize(7); add("lin-short7", PT_LIN, b); }
    { EthF f; f.dataLen = 11; f.data = patt(10, 14); add("eth-len+1", PT_ETH, ethPayload(f)); }
    { EthF f; f.dataLen = 0xFFFF; f.data = patt(10, 15); add("eth-len65535", PT_ETH, ethPayload(f)); }
    { EthF f; Bytes b = ethPayload(f); b.resize(5); add("eth-short5", PT_ETH, b); }
    { AnalogF f; Bytes b = analogPayload(f); b.resize(15); add("analog-short15", PT_ANALOG, b); }
    { CmF f; add("cm-header-only", PT_CM, cmPayload(f, 0)); }
    { CmF f; for (int i = 0; i < 4; ++i) f.s[i] = strSection("ab"); f.s[0].declared = (uint16_t) (f.s[0].bytes.size() + 40); add("cm-str0-too-long", PT_CM, cmPayload(f)); }
    { CmF f; for (int i = 0; i < 4; ++i) f.s[i] = strSection("ab"); f.s[4].declared = 0xFFFF; add("cm-vendor-65535", PT_CM, cmPayload(f)); }
    { CmF f; Bytes b = cmPayload(f, 0); b.resize(25); add("cm-short25", PT_CM, b); }
    { CmF f; for (int i = 0; i < 2; ++i) f.s[i] = strSection("ab"); add("cm-two-sections-only", PT_CM, cmPayload(f, 2)); }
    { IfF f; f.parts = 0; add("if-header-only", PT_IF, ifPayload(f)); }
    { IfF f; f.streamDeclared = 200; f.streams = {1, 2}; add("if-streams-too-long", PT_IF, ifPayload(f)); }
    { IfF f; f.streamDeclared = 2; f.streams = {1, 2}; f.vendorDeclared = 0xFFFF; add("if-vendor-65535", PT_IF, ifPayload(f)); }
    { IfF f; f.parts = 0; Bytes b = ifPayload(f); b.resize(35); add("if-short35", PT_IF, b); }
    { IfF f; f.parts = 1; f.streamDeclared = 2; f.streams = {1, 2}; add("if-no-vendor-length", PT_IF, ifPayload(f)); }
    // bus-error flags
    { CanF f; f.flags = 0x0001; f.dataLen = 2; f.dlc = 2; f.data = patt(2, 16); add("can-crc-err", PT_CAN, canPayload(f)); }
    { CanF f; f.flags = 0x0200; add("can-bit-err", PT_CAN, canPayload(f)); }
    { CanF f; f.flags = 0x0040; f.dataLen = 12; f.dlc = 9; f.data = patt(12, 17); add("canfd-stuff-err", PT_CANFD, canPayload(f)); }
    { EthF f; f.flags = 0x0001; f.dataLen = 4; f.data = patt(4, 18); add("eth-fcs-err", PT_ETH, ethPayload(f)); }
    { EthF f; f.flags = 0x0020; add("eth-phy-err", PT_ETH, ethPayload(f)); }
    { EthF f; f.flags = 0x0002; add("eth-short-frame", PT_ETH, ethPayload(f)); }
    { EthF f; f.flags = 0x0040; f.dataLen = 4; f.data = patt(4, 19); add("eth-truncated-flag(no error)", PT_ETH, ethPayload(f)); }
    // common flags
    for (uint8_t fl : {(uint8_t) 0x01, (uint8_t) 0x02, (uint8_t) 0x10, (uint8_t) 0x20, (uint8_t) 0x80, (uint8_t) 0xB3})
        add(fmt("generic-flags-%02x", fl), 0xFD, patt(3, 20 + fl), fl);
    // extreme header values (sign bits, all ones, zero)
    {
        ref::Msg* m = add("generic-ts-signbit", 0xFC, patt(2, 60));
        m->h.ts = 0x8000000000000000ull; m->h.idword = 0x80000000u;
        m = add("generic-ts-allones", 0xFC, patt(2, 61));
        m->h.ts = ~0ull; m->h.idword = 0xFFFFFFFFu;
        m = add("generic-ts-zero", 0xFC, patt(2, 62));
        m->h.ts = 0; m->h.idword = 0x00008000u;
        m = add("generic-ptype-ff", 0xFF, patt(1, 63));
        m->h.ts = 0x00000000FFFFFFFFull; m->h.idword = 0x0000FFFFu;
    }
    // messages that end the expected prefix
    add("payload-type-0", 0x00, patt(4, 30));
    add("error-in-payload", 0xFE, patt(4, 31), 0x40);
    add("overrunning-length", 0xFE, patt(4, 32))->h.plen = 300;
    // validity not constrained by the property
    { IfF f; f.status = 3; add("if-status3", PT_IF, ifPayload(f)); }
    { AnalogF f; f.flags = 2; f.samples = patt(8, 33); add("analog-dt2", PT_ANALOG, analogPayload(f)); }
    { CanF f; f.errpos = 5; add("can-errpos", PT_CAN, canPayload(f)); }
    { LinF f; f.flags = 0x0001; f.dataLen = 2; f.data = patt(2, 34); add("lin-checksum-err", PT_LIN, linPayload(f)); }
    return a;
}

// ---------------------------------------------------------------------------------------------
// Reference expectation for one buffer handed to the decoder (unsegmented messages)
struct ExpPacket
{
    ref::FrameHdr fh;
    ref::MsgHdr h;
    Bytes payload;
    ref::Validity v = ref::MUST_VALID;
    bool typed = false;
};
struct Expect
{
    bool routedToCmp = false;          // >= 8 bytes, first byte != 0
    std::vector<ExpPacket> prefix;     // packets that must be returned, in order
    std::vector<ExpPacket> tail;       // messages after a prefix-ending message (may be returned, in order)
    bool hasSegment = false;           // a segmented message was met (reassembly; not judged by C04)
};

static inline Expect expectCmp(const uint8_t* f, size_t n)
{
    Expect e;
    if (!f || n < ref::FRAME_HDR || f[0] == 0)
        return e;
    e.routedToCmp = true;
    ref::FrameHdr fh = ref::getFrameHdr(f);
    size_t off = ref::FRAME_HDR;
    bool inTail = false;
    while (off < n)
    {
        size_t rem = n - off;
        if (rem < ref::MSG_HDR)
            break;
        ref::MsgHdr h = ref::getMsgHdr(f + off);
        if (h.plen > rem - ref::MSG_HDR)
            break;   // overrunning length: nothing after it can be located
        if (h.seg() != ref::SEG_NONE)
        {
            e.hasSegment = true;
            break;
        }
        if ((h.flags & ref::FLAG_ERROR_IN_PAYLOAD) || h.ptype == 0)
        {
            inTail = true;
            off += ref::MSG_HDR + h.plen;
            continue;
        }
        ExpPacket p;
        p.fh = fh;
        p.h = h;
        p.payload.assign(f + off + ref::MSG_HDR, f + off + ref::MSG_HDR + h.plen);
        p.v = ref::classify(fh.msgType, h.ptype, p.payload.data(), p.payload.size(), &p.typed);
        (inTail ? e.tail : e.prefix).push_back(p);
        off += ref::MSG_HDR + h.plen;
    }
    return e;
}

static inline const char* kindName(uint8_t mt, uint8_t pt)
{
    if (mt == ref::MT_DATA)
        switch (pt)
        {
            case ref::PT_CAN: return "can";
            case ref::PT_CANFD: return "can-fd";
            case ref::PT_LIN: return "lin";
            case ref::PT_ANALOG: return "analog";
            case ref::PT_ETH: return "ethernet";
        }
    if (mt == ref::MT_STATUS && pt == ref::PT_CM) return "capture-module-status";
    if (mt == ref::MT_STATUS && pt == ref::PT_IF) return "interface-status";
    return "generic";
}

// "" if the library packet matches the expectation, else the name of the first differing aspect
static inline std::string diffExp(const obs::PObs& o, const ExpPacket& x)
{
    if (o.dev != x.fh.device) return "device-id";
    if (o.stream != x.fh.stream) return "stream-id";
    if (o.version != x.fh.version) return "version";
    if (o.ts != x.h.ts) return "timestamp";
    if (x.fh.msgType == ref::MT_DATA && o.ifid != x.h.idword) return "interface-id";
    if ((x.fh.msgType == ref::MT_STATUS || x.fh.msgType == ref::MT_VENDOR) && o.vid != x.h.vendorId()) return "vendor-id";
    if (o.flags != x.h.flags) return "flags";
    if (x.v == ref::MUST_VALID && !o.valid) return std::string("valid-payload-marked-invalid:") + kindName(x.fh.msgType, x.h.ptype);
    if (x.v == ref::MUST_INVALID && o.valid) return std::string("inconsistent-payload-marked-valid:") + kindName(x.fh.msgType, x.h.ptype);
    if (o.valid)
    {
        if (o.msgType != x.fh.msgType) return "message-type";
        if (o.ptype != x.h.ptype) return "payload-type";
        if (o.len != x.h.plen) return "payload-length";
        if (o.bytes != x.payload) return "payload-bytes";
    }
    return "";
}

static inline std::string showExp(const ExpPacket& x)
{
    return fmt("{ver=%u dev=0x%x str=%u mt=0x%x ts=0x%llx id=0x%x fl=0x%02x pt=0x%x len=%u validity=%s bytes=%s%s}", x.fh.version, x.fh.device, x.fh.stream,
               x.fh.msgType, (unsigned long long) x.h.ts, x.h.idword, x.h.flags, x.h.ptype, x.h.plen,
               x.v == ref::MUST_VALID ? "must-be-valid" : (x.v == ref::MUST_INVALID ? "must-be-invalid" : "unconstrained"),
               mc::hex(x.payload.data(), std::min<size_t>(x.payload.size(), 24)).c_str(), x.payload.size() > 24 ? ".." : "");
}

// ---------------------------------------------------------------------------------------------
// Accessor sweep: calls every const accessor of the typed payload (ASan watches the reads) and checks
// every reported view against [raw, raw + length). Returns a digest of everything read.
struct ViewCheck
{
    W* w;
    const uint8_t* raw;
    size_t len;
    const char* cls;
    void view(const char* what, const void* p, size_t n)
    {
        if (n == 0)
            return;
        auto b = static_cast<const uint8_t*>(p);
        if (p == nullptr || b < raw || b + n > raw + len)
            w->fail(fmt("view-out-of-bounds:%s:%s", cls, what),
                    fmt("%s reports a view of %zu byte(s) at offset %lld of a %zu-byte payload", what, n, p ? (long long) (b - raw) : -1ll, len));
    }
};

static inline uint64_t sweepTyped(W& w, const Payload& pl, uint32_t fullType)
{
    uint64_t h = 77;
    const uint8_t* raw = pl.getRawPayload();
    size_t len = pl.getLength();
    auto mixv = [&](uint64_t v) { h = mc::mix(h, v); };
    auto mixb = [&](const void* p, size_t n) {
        if (p && n)
            h = mc::fnv(p, n, h);
    };
    switch (fullType)
    {
        case PayloadType::can:
        {
            auto& p = static_cast<const CanPayload&>(pl);
            ViewCheck vc{&w, raw, len, "CanPayload"};
            mixv(p.getFlags()); mixv(p.getId()); mixv(p.getRsvd()); mixv(p.getIde()); mixv(p.getRtr()); mixv(p.getCrc()); mixv(p.getCrcSupport());
            mixv(p.getErrorPosition()); mixv(p.getDlc()); mixv(p.getDataLength()); mixv(p.getFlag(CanPayloadBase::Flags::brs));
            vc.view("getData/getDataLength", p.getData(), p.getDataLength());
            if (p.getData() && p.getData() >= raw && p.getData() + p.getDataLength() <= raw + len)
                mixb(p.getData(), p.getDataLength());
            break;
        }
        case PayloadType::canFd:
        {
            auto& p = static_cast<const CanFdPayload&>(pl);
            ViewCheck vc{&w, raw, len, "CanFdPayload"};
            mixv(p.getFlags()); mixv(p.getId()); mixv(p.getRsvd()); mixv(p.getIde()); mixv(p.getRrs()); mixv(p.getCrc()); mixv(p.getCrcSupport());
            mixv(p.getSbc()); mixv(p.getSbcParity()); mixv(p.getSbcSupport()); mixv(p.getErrorPosition()); mixv(p.getDlc()); mixv(p.getDataLength());
            vc.view("getData/getDataLength", p.getData(), p.getDataLength());
            if (p.getData() && p.getData() >= raw && p.getData() + p.getDataLength() <= raw + len)
                mixb(p.getData(), p.getDataLength());
            break;
        }
        case PayloadType::lin:
        {
            auto& p = static_cast<const LinPayload&>(pl);
            ViewCheck vc{&w, raw, len, "LinPayload"};
            mixv(p.getFlags()); mixv(p.getLinId()); mixv(p.getParityBits()); mixv(p.getChecksum()); mixv(p.getDataLength()); mixv(p.getFlag(LinPayload::Flags::wup));
            vc.view("getData/getDataLength", p.getData(), p.getDataLength());
            if (p.getData() && p.getData() >= raw && p.getData() + p.getDataLength() <= raw + len)
                mixb(p.getData(), p.getDataLength());
            break;
        }
        case PayloadType::ethernet:
        {
            auto& p = static_cast<const EthernetPayload&>(pl);
            ViewCheck vc{&w, raw, len, "EthernetPayload"};
            mixv(p.getFlags()); mixv(p.getDataLength()); mixv(p.getFlag(EthernetPayload::Flags::fcsSupport));
            vc.view("getData/getDataLength", p.getData(), p.getDataLength());
            if (p.getData() && p.getData() >= raw && p.getData() + p.getDataLength() <= raw + len)
                mixb(p.getData(), p.getDataLength());
            break;
        }
        case PayloadType::analog:
        {
            auto& p = static_cast<const AnalogPayload&>(pl);
            ViewCheck vc{&w, raw, len, "AnalogPayload"};
            mixv(p.getFlags()); mixv((uint64_t) p.getSampleDt()); mixv((uint64_t) p.getUnit());
            float a = p.getSampleInterval(), b = p.getSampleOffset(), c = p.getSampleScalar();
            uint32_t ia, ib, ic;
            memcpy(&ia, &a, 4); memcpy(&ib, &b, 4); memcpy(&ic, &c, 4);
            mixv(ia); mixv(ib); mixv(ic);
            size_t cnt = p.getSamplesCount();
            size_t ss = p.getSampleDt() == AnalogPayload::SampleDt::aInt16 ? 2 : 4;
            mixv(cnt);
            vc.view("getData/getSamplesCount", p.getData(), cnt * ss);
            if (p.getData() && p.getData() >= raw && p.getData() + cnt * ss <= raw + len)
                mixb(p.getData(), cnt * ss);
            break;
        }
        case PayloadType::cmStatMsg:
        {
            auto& p = static_cast<const CaptureModulePayload&>(pl);
            ViewCheck vc{&w, raw, len, "CaptureModulePayload"};
            mixv(p.getUptime()); mixv(p.getGmIdentity()); mixv(p.getGmClockQuality()); mixv(p.getCurrentUtcOffset()); mixv(p.getTimeSource());
            mixv(p.getDomainNumber()); mixv(p.getGptpFlags());
            std::string_view sv[4] = {p.getDeviceDescription(), p.getSerialNumber(), p.getHardwareVersion(), p.getSoftwareVersion()};
            const char* names[4] = {"getDeviceDescription", "getSerialNumber", "getHardwareVersion", "getSoftwareVersion"};
            for (int i = 0; i < 4; ++i)
            {
                vc.view(names[i], sv[i].data(), sv[i].size());
                if (sv[i].size() && (const uint8_t*) sv[i].data() >= raw && (const uint8_t*) sv[i].data() + sv[i].size() <= raw + len)
                    mixb(sv[i].data(), sv[i].size());
            }
            uint16_t vl = p.getVendorDataLength();
            const uint8_t* vd = p.getVendorData();
            mixv(vl);
            vc.view("getVendorData/getVendorDataLength", vd, vl);
            auto vsv = p.getVendorDataStringView();
            vc.view("getVendorDataStringView", vsv.data(), vsv.size());
            if (vl && vd >= raw && vd + vl <= raw + len)
                mixb(vd, vl);
            break;
        }
        case PayloadType::ifStatMsg:
        {
            auto& p = static_cast<const InterfacePayload&>(pl);
            ViewCheck vc{&w, raw, len, "InterfacePayload"};
            mixv(p.getInterfaceId()); mixv(p.getMsgTotalRx()); mixv(p.getMsgTotalTx()); mixv(p.getMsgDroppedRx()); mixv(p.getMsgDroppedTx());
            mixv(p.getErrorsTotalRx()); mixv(p.getErrorsTotalTx()); mixv(p.getInterfaceType()); mixv((uint64_t) p.getInterfaceStatus());
            mixv(p.getFeatureSupportBitmask());
            uint16_t sc = p.getStreamIdsCount();
            const uint8_t* si = p.getStreamIds();
            mixv(sc);
            vc.view("getStreamIds/getStreamIdsCount", si, sc);
            if (sc && si >= raw && si + sc <= raw + len)
                mixb(si, sc);
            uint16_t vl = p.getVendorDataLength();
            const uint8_t* vd = p.getVendorData();
            mixv(vl);
            vc.view("getVendorData/getVendorDataLength", vd, vl);
            if (vl && vd >= raw && vd + vl <= raw + len)
                mixb(vd, vl);
            break;
        }
        default:
            mixb(raw, len);
    }
    return h;
}

// ---------------------------------------------------------------------------------------------
// Decoder pre-states relative to the endpoint of the frame under test
constexpr int NPRE = 4;
static inline void applyPre(Decoder& d, int pre, uint16_t dev, uint8_t str)
{
    auto feed = [&](const Bytes& f) {
        uint8_t* c = static_cast<uint8_t*>(malloc(f.size()));
        memcpy(c, f.data(), f.size());
        d.decode(c, f.size());
        free(c);
    };
    ref::FrameHdr fh;
    fh.device = dev; fh.stream = str; fh.seq = 41; fh.msgType = ref::MT_DATA;
    switch (pre)
    {
        case 1: feed(ref::buildFrame(fh, {ref::mkMsg(0xFE, patt(6, 90), 0x04, 1, 2)})); break;                       // open reassembly, same endpoint
        case 2: fh.device = (uint16_t) (dev + 1); feed(ref::buildFrame(fh, {ref::mkMsg(0xFE, patt(6, 91), 0x04, 1, 2)})); break;   // open on another endpoint
        case 3: feed(ref::buildFrame(fh, {ref::mkMsg(0xFE, patt(6, 92), 0x00, 1, 2)})); break;                       // after a delivered message
        default: break;
    }
}
