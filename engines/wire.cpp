#include <locale>
// Engine `wire`: C04 (decoded packets report the wire fields), C02 (memory safety / ownership /
// termination on arbitrary bytes and histories), C03 (accepted payloads expose in-bounds data only),
// C15 (TECMP conversion). All inputs come from the independent builders in ref/.
#include <asam_cmp/tecmp_decoder.h>

#define MC_ALLOCFAULT_IMPL
#include "mc/allocfault.h"
#include "engines/wire_common.h"
#include "ref/captures.h"

static std::string readCase(const std::string& path)
{
    std::ifstream in(path);
    std::string cs((std::istreambuf_iterator<char>(in)), std::istreambuf_iterator<char>());
    while (!cs.empty() && (cs.back() == '\n' || cs.back() == '\r'))
        cs.pop_back();
    return cs;
}

// A buffer under test = base bytes + optional run-length extension (so that 64 KiB cases stay short)
struct Buf
{
    Bytes base;
    uint8_t extByte = 0;
    size_t extCount = 0;
    bool isNull = false;
    Bytes full() const
    {
        Bytes b = base;
        b.insert(b.end(), extCount, extByte);
        return b;
    }
    std::string show() const
    {
        if (isNull)
            return "null";
        std::string s = mc::hex(base);
        if (extCount)
            s += fmt("+%02xx%zu", extByte, extCount);
        return s.empty() ? "-" : s;
    }
    static Buf parse(const std::string& s)
    {
        Buf b;
        if (s == "null")
        {
            b.isNull = true;
            return b;
        }
        size_t p = s.find('+');
        std::string h = s.substr(0, p);
        if (h != "-")
            b.base = mc::unhex(h);
        if (p != std::string::npos)
        {
            b.extByte = (uint8_t) strtoul(s.substr(p + 1, 2).c_str(), nullptr, 16);
            b.extCount = strtoull(s.c_str() + p + 4, nullptr, 10);
        }
        return b;
    }
};

struct Decoded
{
    std::vector<std::shared_ptr<Packet>> packets;
    bool inputChanged = false;
    size_t inputLen = 0;
};

static Decoded decodeExact(Decoder& d, const Buf& b)
{
    Decoded r;
    if (b.isNull)
    {
        r.packets = d.decode(nullptr, 0);
        return r;
    }
    Bytes f = b.full();
    r.inputLen = f.size();
    // flush against the end of its own heap block (an over-read hits the redzone at once), at an address whose alignment varies
    // with the buffer length (length % 8), as a frame behind a 14-byte Ethernet header is
    const size_t off = f.size() % 8;
    uint8_t* block = static_cast<uint8_t*>(malloc(f.size() + off ? f.size() + off : 1));
    uint8_t* copy = block + off;
    memcpy(copy, f.data(), f.size());
    r.packets = d.decode(copy, f.size());
    r.inputChanged = memcmp(copy, f.data(), f.size()) != 0;
    free(block);
    return r;
}

// ---------------------------------------------------------------------------------------------
// C04
static void judgeC04(W& w, int pre, const Buf& b)
{
    Bytes f = b.full();
    Expect e = expectCmp(b.isNull ? nullptr : f.data(), f.size());
    Decoder d;
    uint16_t dev = f.size() >= 4 ? (uint16_t) ref::rd(&f[2], 2) : 1;
    uint8_t str = f.size() >= 6 ? f[5] : 1;
    applyPre(d, pre, dev, str);
    Decoded r = decodeExact(d, b);
    w.add(mc::C_TRANS, 1);
    std::vector<obs::PObs> got;
    for (auto& p : r.packets)
    {
        if (!p)
        {
            w.fail("decoder-returned-null", "null packet pointer");
            return;
        }
        got.push_back(obs::observe(*p));
    }
    uint64_t oh = got.size();
    for (auto& o : got)
        oh = mc::mix(oh, obs::digest(o));
    w.outcome(oh);
    if (!f.empty() && f[0] == 0)
        return;   // TECMP: C15's business
    if (e.hasSegment)
        return;
    if (got.size() < e.prefix.size())
    {
        w.fail("wire:complete-message-not-returned",
               fmt("decoder returned %zu packet(s); the buffer holds %zu complete well-formed message(s) before anything malformed; first missing: ", got.size(), e.prefix.size()) +
                   showExp(e.prefix[got.size()]));
    }
    size_t n = std::min(got.size(), e.prefix.size());
    for (size_t i = 0; i < n; ++i)
    {
        std::string d = diffExp(got[i], e.prefix[i]);
        if (!d.empty())
            w.fail("wire:packet-differs-from-wire:" + d, fmt("message %zu: decoded ", i) + obs::show(got[i]) + " wire " + showExp(e.prefix[i]));
    }
    // anything beyond the prefix must be, in order, one of the remaining well-formed messages
    size_t ti = 0;
    for (size_t i = e.prefix.size(); i < got.size(); ++i)
    {
        bool matched = false;
        while (ti < e.tail.size() && !matched)
            matched = diffExp(got[i], e.tail[ti++]).empty();
        if (!matched)
        {
            w.fail("wire:returned-packet-not-on-the-wire", fmt("packet %zu of %zu matches no message of the buffer: ", i, got.size()) + obs::show(got[i]));
            break;
        }
    }
}

struct Corpus
{
    std::vector<MsgDef> A;
    std::vector<int> sub;   // sub-alphabet for triples
    std::vector<ref::FrameHdr> headers;
};

static Corpus makeCorpus()
{
    Corpus c;
    c.A = messageAlphabet();
    const char* subNames[] = {"can8", "lin8", "eth46", "cm-strings-vendor3", "if-3-5", "generic5", "generic0", "can-len+1", "lin-len200", "cm-header-only",
                              "if-header-only", "can-crc-err", "payload-type-0", "overrunning-length"};
    for (auto n : subNames)
        for (size_t i = 0; i < c.A.size(); ++i)
            if (c.A[i].name == n)
                c.sub.push_back((int) i);
    for (uint8_t ver : {(uint8_t) 1, (uint8_t) 2, (uint8_t) 0x7F, (uint8_t) 0xFF})
        for (uint16_t dev : {(uint16_t) 0, (uint16_t) 0x0102, (uint16_t) 0xFFFF})
            for (uint8_t str : {(uint8_t) 0, (uint8_t) 1, (uint8_t) 0xFF})
                for (uint8_t mt : {(uint8_t) 1, (uint8_t) 2, (uint8_t) 3, (uint8_t) 0xFF, (uint8_t) 0x07, (uint8_t) 0})   // 0: 'undefined', still a frame
                {
                    ref::FrameHdr h;
                    h.version = ver; h.device = dev; h.stream = str; h.msgType = mt; h.seq = 0x1234;
                    c.headers.push_back(h);
                }
    return c;
}

// variants of one base frame: as is, every cut, zero paddings
template <class Fn>
static void forVariants(const Bytes& frame, bool cuts, bool pads, Fn fn)
{
    Buf b;
    b.base = frame;
    fn(b);
    if (cuts)
        for (size_t n = 0; n < frame.size(); ++n)
        {
            Buf c;
            c.base.assign(frame.begin(), frame.begin() + n);
            fn(c);
        }
    if (pads)
        for (size_t p : {(size_t) 1, (size_t) 15, (size_t) 16, (size_t) 17, (size_t) 40})
        {
            Buf c;
            c.base = frame;
            c.extByte = 0;
            c.extCount = p;
            fn(c);
        }
}

struct C04Task
{
    char part;     // 'H' header sweep, 'P' pairs, 'T' triples, 'Q' quadruples (thorough)
    int a, b, c;
};

static std::vector<C04Task> c04Tasks(const Corpus& c, bool thorough)
{
    std::vector<C04Task> t;
    for (int h = 0; h < (int) c.headers.size(); ++h)
        t.push_back({'H', h, 0, 0});
    for (int mt = 0; mt < 2; ++mt)
        for (int i = 0; i < (int) c.A.size(); ++i)
            t.push_back({'P', mt, i, 0});
    for (int mt = 0; mt < 2; ++mt)
        for (int i = 0; i < (int) c.sub.size(); ++i)
            for (int j = 0; j < (int) c.sub.size(); ++j)
                t.push_back({'T', mt, i, j});
    if (thorough)
        for (int mt = 0; mt < 2; ++mt)
            for (int i = 0; i < (int) c.sub.size(); ++i)
                for (int j = 0; j < (int) c.sub.size(); ++j)
                    t.push_back({'Q', mt, i, j});
    // every payload type byte 0..255 under five frame message types, with a body that is a valid CAN image and one that is not: only
    // the seven typed kinds may be routed to a class validator, every other (message type, type byte) pair is a generic payload
    for (int pt = 0; pt < 256; ++pt)
        t.push_back({'Y', pt, 0, 0});
    // every single bit of the 16-bit flags word alone, per typed data class (each bit of an error mask is its own shortcut)
    for (int cls = 0; cls < 5; ++cls)
        for (int bit = 0; bit < 16; ++bit)
            t.push_back({'F', cls, bit, 0});
    return t;
}

static void runC04Task(W& w, const Corpus& c, const C04Task& t)
{
    auto each = [&](const Bytes& frame) {
        forVariants(frame, true, true, [&](const Buf& b) {
            for (int pre = 0; pre < NPRE; ++pre)
            {
                auto desc = [&] { return fmt("pre=%d;f=", pre) + b.show(); };
                if (!w.begin_case(desc))
                    continue;
                judgeC04(w, pre, b);
                w.add(mc::C_TRACES, 1);
                w.add(mc::C_STATES, 1);
            }
        });
    };
    ref::FrameHdr dataH, statH;
    dataH.device = 0x0A0B; dataH.stream = 7; dataH.msgType = ref::MT_DATA; dataH.seq = 9;
    statH = dataH;
    statH.msgType = ref::MT_STATUS;
    if (t.part == 'H')
    {
        each(ref::buildFrame(c.headers[t.a], {}));
        for (auto& m : c.A)
            each(ref::buildFrame(c.headers[t.a], {m.m}));
    }
    else if (t.part == 'P')
    {
        for (auto& m2 : c.A)
            each(ref::buildFrame(t.a ? statH : dataH, {c.A[t.b].m, m2.m}));
    }
    else if (t.part == 'T')
    {
        for (int k : c.sub)
            each(ref::buildFrame(t.a ? statH : dataH, {c.A[c.sub[t.b]].m, c.A[c.sub[t.c]].m, c.A[k].m}));
    }
    else if (t.part == 'Y')
    {
        ref::CanF f;
        f.idword = 0x123; f.dlc = 2; f.dataLen = 2; f.data = patt(2, 1);
        const Bytes canImage = ref::canPayload(f);
        Bytes lying = canImage;
        lying[15] = 200;   // as a CAN / LIN-like image its inner length would not fit
        for (uint8_t mt : {(uint8_t) ref::MT_DATA, (uint8_t) 2, (uint8_t) ref::MT_STATUS, (uint8_t) 0xFF, (uint8_t) 0x07, (uint8_t) 0})
        {
            ref::FrameHdr h = dataH;
            h.msgType = mt;
            for (const Bytes* body : {&canImage, (const Bytes*) &lying})
                each(ref::buildFrame(h, {ref::mkMsg((uint8_t) t.a, *body, 0x01, 0x0102030405060708ull, 0xA1B2C3D4u)}));
        }
    }
    else if (t.part == 'F')
    {
        using namespace ref;
        const uint16_t fl = (uint16_t) (1u << t.b);
        for (int withData = 0; withData < 2; ++withData)
        {
            Bytes body;
            uint8_t pt = 0;
            switch (t.a)
            {
                case 0: { CanF f; f.flags = fl; f.idword = 0x123; if (withData) { f.dlc = 8; f.dataLen = 8; f.data = patt(8, 1); } body = canPayload(f); pt = PT_CAN; break; }
                case 1: { CanF f; f.flags = fl; f.idword = 0x55; if (withData) { f.dlc = 9; f.dataLen = 12; f.data = patt(12, 2); } body = canPayload(f); pt = PT_CANFD; break; }
                case 2: { LinF f; f.flags = fl; f.pid = 0x21; if (withData) { f.dataLen = 8; f.data = patt(8, 4); } body = linPayload(f); pt = PT_LIN; break; }
                case 3: { EthF f; f.flags = fl; if (withData) { f.dataLen = 46; f.data = patt(46, 7); } body = ethPayload(f); pt = PT_ETH; break; }
                default: { AnalogF f; f.flags = fl; if (withData) f.samples = patt(8, 5); body = analogPayload(f); pt = PT_ANALOG; break; }
            }
            each(ref::buildFrame(dataH, {ref::mkMsg(pt, body, 0, 0x0102030405060708ull, 0xA1B2C3D4u)}));
        }
    }
    else
    {
        for (int k : c.sub)
            for (int l : c.sub)
                each(ref::buildFrame(t.a ? statH : dataH, {c.A[c.sub[t.b]].m, c.A[c.sub[t.c]].m, c.A[k].m, c.A[l].m}));
    }
}

// ---------------------------------------------------------------------------------------------
// C02: safety / ownership on a history of buffers fed to one decoder
static uint64_t digestPackets(W& w, const std::vector<std::shared_ptr<Packet>>& ps, bool sweep)
{
    uint64_t h = ps.size();
    for (auto& p : ps)
    {
        if (!p)
            continue;
        obs::PObs o = obs::observe(*p);
        h = mc::mix(h, obs::digest(o));
        if (sweep && o.valid)
            h = mc::mix(h, sweepTyped(w, p->getPayload(), o.fullType));
    }
    return h;
}

// abortIdx >= 0: the decode call for buffer abortIdx is first made with its allocation number abortN failing (the call ends with
// std::bad_alloc, the caller gets nothing), then the buffer is presented again. Returns false if that call makes fewer allocations.
static bool judgeC02(W& w, int pre, const std::vector<Buf>& hist, int abortIdx = -1, int abortN = 0)
{
    bool fired = abortIdx < 0;
    std::vector<std::vector<std::shared_ptr<Packet>>> kept;
    std::vector<uint64_t> d1;
    uint64_t oh = 0;
    {
        Decoder d;
        Bytes f0 = hist.empty() ? Bytes{} : hist[0].full();
        applyPre(d, pre, f0.size() >= 4 ? (uint16_t) ref::rd(&f0[2], 2) : 1, f0.size() >= 6 ? f0[5] : 1);
        for (size_t i = 0; i < hist.size(); ++i)
        {
            if ((int) i == abortIdx && !hist[i].isNull)
            {
                Bytes f = hist[i].full();
                uint8_t* copy = static_cast<uint8_t*>(malloc(f.size() ? f.size() : 1));
                memcpy(copy, f.data(), f.size());
                bool thrown = false;
                mc::af::arm(abortN);
                try
                {
                    auto lost = d.decode(copy, f.size());
                    mc::af::disarm();
                }
                catch (const std::bad_alloc&)
                {
                    thrown = true;
                }
                fired = mc::af::disarm();
                free(copy);
                if (!fired)
                    return false;
                if (!thrown)
                    w.fail("aborted-call:allocation-failure-swallowed", fmt("allocation %d of the decode call for buffer %zu failed, the call returned normally", abortN, i));
                w.add(mc::C_TRANS, 1);
            }
            Decoded r = decodeExact(d, hist[i]);
            w.add(mc::C_TRANS, 1);
            if (r.inputChanged)
                w.fail("safety:decoder-wrote-to-input-buffer", fmt("buffer %zu of the history was modified by decode()", i));
            if (r.packets.size() > r.inputLen / 12)
                w.fail("safety:more-than-one-packet-per-12-bytes", fmt("buffer %zu: %zu bytes produced %zu packets", i, r.inputLen, r.packets.size()));
            for (auto& p : r.packets)
                if (!p)
                    w.fail("safety:null-packet-returned", fmt("buffer %zu: a null packet pointer was returned", i));
            d1.push_back(digestPackets(w, r.packets, true));   // dereferences the payload of every packet
            oh = mc::mix(oh, d1.back());
            kept.push_back(std::move(r.packets));
        }
        // ten more frames, then the decoder is destroyed
        ref::FrameHdr fh;
        fh.device = 0x77; fh.stream = 3;
        for (int k = 0; k < 10; ++k)
        {
            fh.seq = (uint16_t) k;
            Buf x;
            x.base = ref::buildFrame(fh, {ref::mkMsg(0xFE, patt(64, 200 + k), k % 3 == 0 ? 0x04 : 0x00, k, k)});
            decodeExact(d, x);
        }
    }
    for (size_t i = 0; i < kept.size(); ++i)
        if (digestPackets(w, kept[i], true) != d1[i])
            w.fail("safety:returned-packet-changed-after-input-release", fmt("packets returned for buffer %zu read differently after the input was freed, more frames were decoded and the decoder was destroyed", i));
    w.outcome(oh);
    return fired;
}

static std::string showHist(int pre, const std::vector<Buf>& h)
{
    std::string s = fmt("pre=%d;h=", pre);
    for (size_t i = 0; i < h.size(); ++i)
        s += (i ? "," : "") + h[i].show();
    return s;
}

// TECMP seeds (well-formed)
static std::vector<Bytes> tecmpSeeds()
{
    std::vector<Bytes> s;
    ref::TecmpHdr h;
    h.device = 0x43; h.counter = 5; h.ifid = 0x01020304; h.ts = 0x1122334455667788ull;
    h.msgType = ref::TM_DATA; h.dataType = ref::TD_CAN;
    s.push_back(ref::tecmpFrame(h, ref::tecmpCanPayload(0x123, 4, {1, 2, 3, 4}, 2)));
    s.push_back(ref::tecmpFrame(h, ref::tecmpCanPayload(0x1FFFFFFF, 8, patt(8, 1), 2)));
    s.push_back(ref::tecmpFrame(h, ref::tecmpCanPayload(0x10, 0, {}, 0)));
    h.dataType = ref::TD_CANFD;
    s.push_back(ref::tecmpFrame(h, ref::tecmpCanPayload(0x321, 64, patt(64, 2), 3)));
    s.push_back(ref::tecmpFrame(h, ref::tecmpCanPayload(0x321, 12, patt(12, 3), 3)));
    h.dataType = ref::TD_LIN;
    s.push_back(ref::tecmpFrame(h, ref::tecmpLinPayload(0x7F, 8, patt(8, 4), true, 0x5A)));
    s.push_back(ref::tecmpFrame(h, ref::tecmpLinPayload(0x21, 0, {}, false, 0)));
    h.dataType = 0;
    h.msgType = ref::TM_CM_STATUS;
    {
        Bytes p;
        ref::put8(p, 0x0C); ref::put8(p, 1); ref::put8(p, 2); ref::put8(p, 0); ref::put16(p, 24); ref::put16(p, 0x43); ref::put32(p, 23140065);
        ref::put8(p, 0); ref::put8(p, 1); ref::put8(p, 2); ref::put8(p, 3); ref::put8(p, 4); ref::put8(p, 5);
        ref::put8(p, 10); ref::put8(p, 0); ref::put32(p, 1000); ref::put64(p, 0x0102030405060708ull); ref::put8(p, 12); ref::put8(p, 5); ref::put8(p, 40); ref::put8(p, 41);
        s.push_back(ref::tecmpFrame(h, p));
    }
    h.msgType = ref::TM_BUS_STATUS;
    {
        Bytes p;
        ref::put8(p, 0x0C); ref::put8(p, 1); ref::put8(p, 2); ref::put8(p, 0); ref::put16(p, 24); ref::put16(p, 0x43); ref::put32(p, 777);
        for (int i = 0; i < 2; ++i)
        {
            ref::put32(p, 0x100 + i); ref::put32(p, 1000 + i); ref::put32(p, 3 + i);
        }
        s.push_back(ref::tecmpFrame(h, p));
    }
    h.msgType = ref::TM_DATA; h.dataType = ref::TD_ETH;
    s.push_back(ref::tecmpFrame(h, patt(20, 9)));
    h.msgType = ref::TM_CONTROL; h.dataType = 0;
    s.push_back(ref::tecmpFrame(h, patt(6, 10)));
    return s;
}

static std::vector<Bytes> cmpSeeds(const Corpus& c)
{
    std::vector<Bytes> s;
    ref::FrameHdr dataH, statH;
    dataH.device = 0x0A0B; dataH.stream = 7; dataH.msgType = ref::MT_DATA; dataH.seq = 9;
    statH = dataH;
    statH.msgType = ref::MT_STATUS;
    for (auto& m : c.A)
    {
        s.push_back(ref::buildFrame(dataH, {m.m}));
        s.push_back(ref::buildFrame(statH, {m.m}));
    }
    // segment frames
    for (uint8_t seg : {(uint8_t) 1, (uint8_t) 2, (uint8_t) 3})
    {
        dataH.seq = (uint16_t) (42 + (seg == 1 ? 0 : 1));
        s.push_back(ref::buildFrame(dataH, {ref::mkMsg(0xFE, patt(9, 50 + seg), (uint8_t) (seg << 2), 5, 6)}));
    }
    s.push_back(ref::buildFrame(dataH, {c.A[1].m, c.A[5].m, c.A[9].m}));
    s.push_back(ref::buildFrame(dataH, {}));
    // continuation segments that fit the state of a default-constructed reassembly entry / header (version 1, message type 0, counter
    // 0 + 1) on an endpoint without an open message, with fewer and more payload bytes than a message header has
    {
        ref::FrameHdr z;
        z.device = 0x0A0B; z.stream = 7; z.version = 1; z.msgType = 0; z.seq = 1;
        for (uint8_t seg : {(uint8_t) 2, (uint8_t) 3})
            for (size_t len : {(size_t) 0, (size_t) 5, (size_t) 20})
                s.push_back(ref::buildFrame(z, {ref::mkMsg(0xFE, patt(len, 60 + seg), (uint8_t) (seg << 2), 5, 6)}));
    }
    return s;
}

static const uint8_t kCorruptVals[] = {0x00, 0x01, 0x7F, 0x80, 0xFF};
static const uint16_t kCorruptVals16[] = {0x0000, 0xFFFF, 0x7FFF, 0x8000, 0x0100, 0x00FF};

// enumerate the single-buffer corpus of one seed
template <class Fn>
static void corruptions(const Bytes& seed, Fn fn)
{
    for (size_t pos = 0; pos < seed.size(); ++pos)
    {
        for (uint8_t v : kCorruptVals)
            if (seed[pos] != v)
            {
                Buf b;
                b.base = seed;
                b.base[pos] = v;
                fn(b);
            }
        for (int dlt : {-1, 1})
        {
            Buf b;
            b.base = seed;
            b.base[pos] = (uint8_t) (seed[pos] + dlt);
            fn(b);
        }
        if (pos + 1 < seed.size())
            for (uint16_t v : kCorruptVals16)
            {
                Buf b;
                b.base = seed;
                b.base[pos] = (uint8_t) (v >> 8);
                b.base[pos + 1] = (uint8_t) v;
                fn(b);
            }
        // a 16-bit field set to "what remains in the buffer" -1, exact, +1
        if (pos + 1 < seed.size())
            for (int dlt : {-1, 0, 1})
            {
                long rem = (long) seed.size() - (long) pos - 2 + dlt;
                if (rem < 0)
                    continue;
                Buf b;
                b.base = seed;
                b.base[pos] = (uint8_t) (rem >> 8);
                b.base[pos + 1] = (uint8_t) rem;
                fn(b);
            }
    }
}

struct C02Ctx
{
    Corpus corpus;
    std::vector<Bytes> seeds;        // CMP + TECMP seeds
    std::vector<Buf> sub;            // sub-corpus for pair/triple histories
};

static C02Ctx makeC02(bool thorough)
{
    (void) thorough;
    C02Ctx c;
    c.corpus = makeCorpus();
    c.seeds = cmpSeeds(c.corpus);
    for (auto& t : tecmpSeeds())
        c.seeds.push_back(t);
    // sub-corpus: one representative per kind of control flow
    auto addSub = [&](const Bytes& b) {
        Buf x;
        x.base = b;
        c.sub.push_back(x);
    };
    ref::FrameHdr dh;
    dh.device = 1; dh.stream = 1; dh.msgType = ref::MT_DATA;
    ref::FrameHdr dh2 = dh;
    dh2.stream = 2;
    auto seg = [&](ref::FrameHdr h, uint16_t seq, uint8_t s, size_t len, unsigned tag) {
        h.seq = seq;
        return ref::buildFrame(h, {ref::mkMsg(0xFE, patt(len, tag), (uint8_t) (s << 2), tag, tag)});
    };
    addSub(seg(dh, 10, 0, 5, 1));
    addSub(seg(dh, 10, 1, 5, 2));
    addSub(seg(dh, 11, 2, 5, 3));
    addSub(seg(dh, 12, 3, 5, 4));
    addSub(seg(dh, 11, 3, 0, 5));
    addSub(seg(dh, 11, 3, 5, 6));
    addSub(seg(dh2, 10, 1, 5, 7));
    addSub(seg(dh2, 11, 3, 5, 8));
    {
        // unsegmented message followed by a continuation segment in one frame (while a reassembly may be open)
        ref::FrameHdr h = dh;
        h.seq = 11;
        addSub(ref::buildFrame(h, {ref::mkMsg(0xFE, patt(2, 40), 0, 1, 1), ref::mkMsg(0xFE, patt(5, 41), (uint8_t) (2 << 2), 2, 2)}));
        addSub(ref::buildFrame(h, {ref::mkMsg(0xFE, patt(2, 42), 0, 1, 1), ref::mkMsg(0xFE, patt(5, 43), (uint8_t) (3 << 2), 2, 2)}));
    }
    addSub(seg(dh, 65535, 1, 3, 9));
    addSub(seg(dh, 0, 3, 3, 10));
    {
        // orphan continuation fitting a default-constructed entry (message type 0, counter 1)
        ref::FrameHdr z = dh;
        z.msgType = 0;
        addSub(seg(z, 1, 2, 5, 15));
        addSub(seg(z, 1, 3, 0, 16));
        addSub(seg(z, 2, 3, 5, 17));
    }
    {
        Bytes f = seg(dh, 10, 1, 5, 11);
        f.resize(f.size() - 3);   // declared length overruns
        addSub(f);
        Bytes g = seg(dh, 11, 3, 5, 12);
        g.resize(g.size() - 3);
        addSub(g);
        Bytes t = seg(dh, 10, 1, 5, 13);
        for (int i = 0; i < 30; ++i)
            t.push_back(0xEE);
        addSub(t);
        // a first segment whose stored header is then grown by a continuation: large segment
        addSub(seg(dh, 11, 2, 1400, 14));
    }
    for (const char* n : {"can8", "canfd64", "lin8", "eth46", "cm-strings-vendor3", "if-3-5", "generic0", "can-len+1", "lin-len200", "cm-header-only", "cm-vendor-65535",
                          "if-header-only", "if-vendor-65535", "payload-type-0", "error-in-payload", "overrunning-length", "analog32x3", "can-crc-err"})
        for (auto& m : c.corpus.A)
            if (m.name == n)
            {
                ref::FrameHdr h = dh;
                h.msgType = (m.m.h.ptype <= 2 && (m.name[0] == 'c' && m.name[1] == 'm' || m.name[0] == 'i')) ? ref::MT_STATUS : ref::MT_DATA;
                addSub(ref::buildFrame(h, {m.m}));
            }
    for (auto& t : tecmpSeeds())
        addSub(t);
    {
        Buf n;
        n.isNull = true;
        c.sub.push_back(n);
        addSub(Bytes{1, 0, 0});
        addSub(Bytes{1, 0, 0, 1, 1, 1, 0, 1});
        addSub(Bytes{0, 0, 0, 0, 0, 0, 0, 0});
        Bytes t = tecmpSeeds()[0];
        t.resize(30);
        addSub(t);
    }
    return c;
}

// RAII: a global C++ locale whose numpunct groups digits by three with ',' and uses ';' as decimal point (hand-built facet: no
// installed system locale is needed; the C locale, which the harness's own printf formatting uses, stays untouched)
struct GroupingLocale
{
    struct Punct : std::numpunct<char>
    {
        char do_thousands_sep() const override { return ','; }
        std::string do_grouping() const override { return "\3"; }
        char do_decimal_point() const override { return ';'; }
    };
    std::locale old;
    GroupingLocale() : old(std::locale::global(std::locale(std::locale::classic(), new Punct))) {}
    ~GroupingLocale() { std::locale::global(old); }
};

// ---------------------------------------------------------------------------------------------
// TECMP sweep / C15
struct TExp
{
    bool judged = true;                  // false: the property does not fix the outcome (only safety applies)
    bool none = false;                   // no packet expected
    bool multi = false;                  // data message followed by further bytes (further entries): only the first packet is judged
    uint8_t kind = 0;                    // 'C' can, 'L' lin, 'M' cm status, 'B' bus status
    uint16_t dataType = 0;
    uint8_t device = 0;
    uint64_t ts = 0;
    uint32_t ifid = 0;
    uint32_t arbId = 0;
    Bytes data;
    uint8_t pid = 0;
    bool hasChecksum = false;
    uint8_t checksum = 0;
    uint32_t serial = 0;
    uint8_t sw[3] = {0, 0, 0}, hw[2] = {0, 0};
    struct Entry
    {
        uint32_t ifid, msgs, errs;
    };
    std::vector<Entry> entries;
};

// Independent parse of a TECMP frame into the expected conversion
static TExp expectTecmp(const Bytes& f)
{
    TExp e;
    e.none = true;
    if (f.size() < ref::TECMP_HDR)
        return e;
    uint16_t dev16 = (uint16_t) ref::rd(&f[0], 2);
    (void) dev16;
    e.device = f[1];
    uint8_t mt = f[5];
    uint16_t dt = (uint16_t) ref::rd(&f[6], 2);
    e.ifid = (uint32_t) ref::rd(&f[12], 4);
    e.ts = ref::rd(&f[16], 8);
    e.dataType = dt;
    uint16_t plen = (uint16_t) ref::rd(&f[24], 2);
    size_t avail = f.size() - ref::TECMP_HDR;
    if (plen == 0 || plen > avail)
        return e;   // declared payload does not fit the buffer / nothing to convert
    const uint8_t* p = &f[ref::TECMP_HDR];
    if (plen < avail)
    {
        // Bytes after the declared payload (a TECMP frame may carry further entries, each with its own 16-byte entry header). For a
        // supported data message whose first entry is consistent WITHIN its declared length the packet for that entry is fixed by the
        // property (its interface id, timestamp, ids and data are those of the FIRST entry header); what is made of the rest is not.
        e.judged = false;
        if (mt == ref::TM_DATA && (dt == ref::TD_CAN || dt == ref::TD_CANFD) && plen >= 5 && (size_t) 5 + p[4] <= plen)
        {
            e.judged = true; e.multi = true; e.none = false; e.kind = 'C';
            e.arbId = (uint32_t) ref::rd(p, 4);
            e.data.assign(p + 5, p + 5 + p[4]);
        }
        else if (mt == ref::TM_CM_STATUS && plen >= 36 && !(dt == 0xFF00))
        {
            // a complete capture-module status message followed by further bytes: the fields of the status header are at fixed offsets
            e.judged = true; e.multi = true; e.none = false; e.kind = 'M';
            e.serial = (uint32_t) ref::rd(p + 8, 4);
            e.sw[0] = p[13]; e.sw[1] = p[14]; e.sw[2] = p[15];
            e.hw[0] = p[16]; e.hw[1] = p[17];
        }
        else if (mt == ref::TM_DATA && dt == ref::TD_LIN && plen >= 2 && (size_t) 2 + p[1] <= plen)
        {
            e.judged = true; e.multi = true; e.none = false; e.kind = 'L';
            e.pid = p[0];
            e.data.assign(p + 2, p + 2 + p[1]);
            e.hasChecksum = plen > (size_t) 2 + p[1];
            if (e.hasChecksum)
                e.checksum = p[2 + p[1]];
        }
        return e;
    }
    if (dt == 0xFF00 && mt != ref::TM_DATA)
    {
        // Status messages carry no meaningful data type; the library uses the byte pattern FF 00 as its
        // "header not set" marker and drops such frames. The property does not fix this case.
        e.judged = false;
        return e;
    }
    if (mt == ref::TM_DATA && (dt == ref::TD_CAN || dt == ref::TD_CANFD))
    {
        if (avail < 5)
            return e;
        uint8_t len = p[4];
        if ((size_t) 5 + len > avail)
            return e;   // length byte exceeds the buffer
        e.none = false;
        e.kind = 'C';
        e.arbId = (uint32_t) ref::rd(p, 4);
        e.data.assign(p + 5, p + 5 + len);
        return e;
    }
    if (mt == ref::TM_DATA && dt == ref::TD_LIN)
    {
        if (avail < 2)
            return e;
        uint8_t len = p[1];
        if ((size_t) 2 + len > avail)
            return e;
        e.none = false;
        e.kind = 'L';
        e.pid = p[0];
        e.data.assign(p + 2, p + 2 + len);
        e.hasChecksum = avail > (size_t) 2 + len;
        if (e.hasChecksum)
            e.checksum = p[2 + len];
        return e;
    }
    if (mt == ref::TM_CM_STATUS)
    {
        if (avail < 36)
            return e;   // shorter than the fixed status header
        e.none = false;
        e.kind = 'M';
        e.serial = (uint32_t) ref::rd(p + 8, 4);
        e.sw[0] = p[13]; e.sw[1] = p[14]; e.sw[2] = p[15];
        e.hw[0] = p[16]; e.hw[1] = p[17];
        return e;
    }
    if (mt == ref::TM_BUS_STATUS)
    {
        if (avail < 12)
            return e;
        if ((avail - 12) % 12 != 0)
        {
            e.judged = false;   // a partial trailing entry: outcome not fixed by the property
            return e;
        }
        size_t n = (avail - 12) / 12;
        if (n == 0)
            return e;
        e.none = false;
        e.kind = 'B';
        for (size_t i = 0; i < n; ++i)
        {
            const uint8_t* q = p + 12 + 12 * i;
            e.entries.push_back({(uint32_t) ref::rd(q, 4), (uint32_t) ref::rd(q + 4, 4), (uint32_t) ref::rd(q + 8, 4)});
        }
        return e;
    }
    return e;   // unsupported kind
}

static void judgeC15(W& w, const Bytes& f)
{
    TExp e = expectTecmp(f);
    Buf b;
    b.base = f;
    Decoder d;
    Decoded r = decodeExact(d, b);
    w.add(mc::C_TRANS, 1);
    for (auto& p : r.packets)
        if (!p)
        {
            w.fail("decoder-returned-null", "null packet pointer");
            return;
        }
    uint64_t oh = mc::mix(r.packets.size(), e.kind);
    for (auto& p : r.packets)
        oh = mc::mix(oh, obs::digest(obs::observe(*p)));
    w.outcome(oh);
    if (!e.judged)
        return;
    if (e.none)
    {
        if (!r.packets.empty())
            w.fail("tecmp:packet-from-unsupported-or-inconsistent-message",
                   fmt("%zu packet(s) returned for a TECMP message of an unsupported kind or whose inner lengths do not fit the buffer: ", r.packets.size()) +
                       obs::show(obs::observe(*r.packets[0])));
        return;
    }
    size_t want = e.kind == 'B' ? e.entries.size() : 1;
    if (e.multi)
    {
        if (r.packets.empty())
        {
            w.fail(fmt("tecmp:packet-count:%c", e.kind), fmt("TECMP data message of kind %c followed by further bytes: no packet returned for its first entry", e.kind));
            return;
        }
        r.packets.resize(1);   // only the first entry's packet is fixed by the property
    }
    else if (r.packets.size() != want)
    {
        w.fail(fmt("tecmp:packet-count:%c", e.kind), fmt("well-formed TECMP message of kind %c: %zu packet(s) returned, expected %zu", e.kind, r.packets.size(), want));
        return;
    }
    for (size_t i = 0; i < r.packets.size(); ++i)
    {
        const Packet& p = *r.packets[i];
        obs::PObs o = obs::observe(p);
        auto bad = [&](const char* field, const std::string& d) { w.fail(fmt("tecmp:field:%c:%s", e.kind, field), d + " packet " + obs::show(o)); };
        if (o.dev != e.device)
            bad("device-id", fmt("device id 0x%x expected 0x%x;", o.dev, e.device));
        if (o.ts != e.ts)
            bad("timestamp", fmt("timestamp expected 0x%llx;", (unsigned long long) e.ts));
        if (!o.valid)
        {
            bad("validity", "converted packet is not valid;");
            continue;
        }
        if (e.kind == 'C')
        {
            if (o.ifid != e.ifid)
                bad("interface-id", fmt("interface id expected 0x%x;", e.ifid));
            if (o.fullType != PayloadType::can && o.fullType != PayloadType::canFd)
            {
                bad("payload-type", "expected a CAN or CAN-FD payload;");
                continue;
            }
            // a classic CAN message with up to 8 bytes is a CAN payload, a CAN-FD message with more than 8 bytes a CAN-FD payload
            // (the other two combinations are left to the library, which decides by the length)
            if (e.dataType == ref::TD_CAN && e.data.size() <= 8 && o.fullType != PayloadType::can)
                bad("payload-type", "a TECMP CAN message with <= 8 data bytes was converted to a CAN-FD payload;");
            if (e.dataType == ref::TD_CANFD && e.data.size() > 8 && o.fullType != PayloadType::canFd)
                bad("payload-type", "a TECMP CAN-FD message with > 8 data bytes was converted to a classic CAN payload;");
            auto& c = static_cast<const CanPayloadBase&>(p.getPayload());
            if (c.getId() != e.arbId)
                bad("arbitration-id", fmt("id 0x%x expected 0x%x;", c.getId(), e.arbId));
            if (c.getDataLength() != e.data.size())
                bad("data-length", fmt("data length %u expected %zu;", c.getDataLength(), e.data.size()));
            else if (!e.data.empty() && (c.getData() == nullptr || memcmp(c.getData(), e.data.data(), e.data.size()) != 0))
                bad("data-bytes", "data bytes differ;");
        }
        else if (e.kind == 'L')
        {
            if (o.ifid != e.ifid)
                bad("interface-id", fmt("interface id expected 0x%x;", e.ifid));
            if (o.fullType != PayloadType::lin)
            {
                bad("payload-type", "expected a LIN payload;");
                continue;
            }
            auto& l = static_cast<const LinPayload&>(p.getPayload());
            if (l.getLinId() != (e.pid & 0x3F))
                bad("lin-id", fmt("LIN id 0x%x expected 0x%x;", l.getLinId(), e.pid & 0x3F));
            if (l.getDataLength() != e.data.size())
                bad("data-length", fmt("data length %u expected %zu;", l.getDataLength(), e.data.size()));
            else if (!e.data.empty() && (l.getData() == nullptr || memcmp(l.getData(), e.data.data(), e.data.size()) != 0))
                bad("data-bytes", "data bytes differ;");
            if (e.hasChecksum && l.getChecksum() != e.checksum)
                bad("checksum", fmt("checksum 0x%x expected 0x%x;", l.getChecksum(), e.checksum));
        }
        else if (e.kind == 'M')
        {
            if (o.fullType != PayloadType::cmStatMsg)
            {
                bad("payload-type", "expected a capture-module status payload;");
                continue;
            }
            auto& c = static_cast<const CaptureModulePayload&>(p.getPayload());
            std::string sn = std::to_string(e.serial);
            std::string sw = fmt("v%u.%u.%u", e.sw[0], e.sw[1], e.sw[2]);
            std::string hw = fmt("v%u.%u", e.hw[0], e.hw[1]);
            if (std::string(c.getSerialNumber()) != sn)
                bad("serial-number", "serial number '" + std::string(c.getSerialNumber()) + "' expected '" + sn + "';");
            if (std::string(c.getSoftwareVersion()) != sw)
                bad("software-version", "software version '" + std::string(c.getSoftwareVersion()) + "' expected '" + sw + "';");
            if (std::string(c.getHardwareVersion()) != hw)
                bad("hardware-version", "hardware version '" + std::string(c.getHardwareVersion()) + "' expected '" + hw + "';");
        }
        else
        {
            if (o.fullType != PayloadType::ifStatMsg)
            {
                bad("payload-type", "expected an interface status payload;");
                continue;
            }
            auto& c = static_cast<const InterfacePayload&>(p.getPayload());
            const auto& x = e.entries[i];
            if (c.getInterfaceId() != x.ifid || o.ifid != x.ifid)
                bad("entry-interface-id", fmt("entry %zu: interface id 0x%x / packet 0x%x expected 0x%x;", i, c.getInterfaceId(), o.ifid, x.ifid));
            if (c.getMsgTotalRx() != x.msgs)
                bad("entry-messages-total", fmt("entry %zu: messages total %u expected %u;", i, c.getMsgTotalRx(), x.msgs));
            if (c.getErrorsTotalRx() != x.errs)
                bad("entry-errors-total", fmt("entry %zu: errors total %u expected %u;", i, c.getErrorsTotalRx(), x.errs));
        }
    }
}

struct TTask
{
    char part;
    int a, b;
};

// enumerates TECMP frames; fn(frame)
template <class Fn>
static void tecmpEnumerate(const TTask& t, bool thorough, Fn fn)
{
    const uint16_t devs[] = {0x0000, 0x0043, 0x00FF};
    const uint32_t ifs[] = {0, 0x01020304u, 0xFFFFFFFFu};
    const uint64_t tss[] = {0, 0x0102030405060708ull, ~0ull};
    auto hdr = [&](int v) {
        ref::TecmpHdr h;
        h.device = devs[v % 3]; h.ifid = ifs[(v / 3) % 3]; h.ts = tss[(v / 9) % 3]; h.counter = (uint16_t) (0x100 + v); h.version = 3;
        return h;
    };
    // the header's DECLARED payload length disagrees with the bytes present, in both directions (0, 1, just below / at / above the
    // 12-byte generic status part, one less, one more, 65535): a loop bounded by the declared length must not outrun the buffer, and
    // one bounded by the buffer must not trust the declared length
    auto declVariants = [&](const Bytes& f) {
        if (f.size() < 28)
            return;
        const long real = (long) f.size() - 28;
        for (long pl : {0l, 1l, 11l, 12l, 13l, real - 1, real + 1, 0xFFFFl})
            if (pl >= 0 && pl != real)
            {
                Bytes g = f;
                g[24] = (uint8_t) (pl >> 8);
                g[25] = (uint8_t) pl;
                fn(g);
            }
    };
    if (t.part == 'E')   // a supported data message followed by further bytes: a second entry (well-formed / lying), header-like and zero trails
    {
        for (int kind = 0; kind < 3; ++kind)
            for (int v : {0, 4, 13, 26})
            {
                ref::TecmpHdr h = hdr(v);
                h.msgType = ref::TM_DATA; h.dataType = kind == 0 ? ref::TD_CAN : (kind == 1 ? ref::TD_CANFD : ref::TD_LIN);
                const size_t len = (size_t) t.a;
                if (kind == 0 && len > 8)
                    continue;
                Bytes first = kind == 2 ? ref::tecmpLinPayload(0x2A, (uint8_t) len, patt(len, 3), (v & 1) != 0, 0x5C) : ref::tecmpCanPayload(0x321, (uint8_t) len, patt(len, 4), v == 13 ? 2 : 0);
                Bytes base = ref::tecmpFrame(h, first);   // declared length = the first entry only
                auto entry = [&](uint32_t ifid, uint64_t ts, uint16_t plen, const Bytes& body) {
                    Bytes x;
                    ref::put32(x, ifid);
                    for (int i = 7; i >= 0; --i)
                        ref::put8(x, (uint8_t) (ts >> (8 * i)));
                    ref::put16(x, plen);
                    ref::put16(x, 0);
                    ref::putbytes(x, body);
                    return x;
                };
                Bytes second = kind == 2 ? ref::tecmpLinPayload(0x11, 3, patt(3, 5), true, 0x77) : ref::tecmpCanPayload(0x100, 2, patt(2, 6), 0);
                std::vector<Bytes> trails = {
                    entry(0x0A0B0C0D, 0x1112131415161718ull, (uint16_t) second.size(), second),                 // a well-formed second entry, other interface id and timestamp
                    entry(0x0A0B0C0D, 0x1112131415161718ull, (uint16_t) (second.size() + 9), second),           // second entry announces more than follows
                    entry(0x0A0B0C0D, 0x1112131415161718ull, 1, second),                                        // second entry announces one byte
                    entry(0x0A0B0C0D, 0x1112131415161718ull, 0, {}),                                            // empty second entry
                    Bytes(40, 0x01), Bytes(16, 0x01), Bytes(15, 0x01), Bytes(16, 0x00), Bytes(1, 0x00),
                };
                {
                    Bytes two = entry(0x0A0B0C0D, 0x1112131415161718ull, (uint16_t) second.size(), second);
                    Bytes third = entry(0x01010101, 0x2122232425262728ull, (uint16_t) second.size(), second);
                    two.insert(two.end(), third.begin(), third.end());
                    trails.push_back(two);   // three entries
                }
                for (auto& tr : trails)
                {
                    Bytes g = base;
                    g.insert(g.end(), tr.begin(), tr.end());
                    fn(g);
                }
            }
    }
    if (t.part == 'C')   // CAN / CAN-FD: data length t.a (0..64), all arbitration ids, crc trailers, header variants; plus inconsistent lengths
    {
        const uint32_t arbs[] = {0, 0x321, 0x1FFFFFFF};
        for (uint16_t dt : {ref::TD_CAN, ref::TD_CANFD})
            for (uint32_t arb : arbs)
                for (int crc : {0, 2, 3})
                    for (int v = 0; v < 27; v += (arb == 0x321 ? 1 : 13))
                    {
                        ref::TecmpHdr h = hdr(v);
                        h.msgType = ref::TM_DATA; h.dataType = dt;
                        Bytes data = patt((size_t) t.a, (unsigned) t.a);
                        fn(ref::tecmpFrame(h, ref::tecmpCanPayload(arb, (uint8_t) t.a, data, crc)));
                        if (v == 0)
                        {
                            // length byte inconsistent with the buffer
                            for (int lb : {t.a + 1, t.a + 2, t.a + 4, 64, 65, 255})
                                if (lb <= 255 && lb > t.a + crc)
                                    fn(ref::tecmpFrame(h, ref::tecmpCanPayload(arb, (uint8_t) lb, data, crc)));
                            // every single bit of the data-flags and device-flags words alone (the library reads none of them today; a
                            // feature that starts to must not relax a length check): consistent frame and the lying length bytes
                            if (arb == 0x321 && crc != 2)
                                for (int bit = 0; bit < 32; ++bit)
                                {
                                    ref::TecmpHdr hf = h;
                                    (bit < 16 ? hf.dataFlags : hf.deviceFlags) = (uint16_t) (1u << (bit & 15));
                                    fn(ref::tecmpFrame(hf, ref::tecmpCanPayload(arb, (uint8_t) t.a, data, crc)));
                                    for (int lb : {t.a + 1, t.a + 4, 9, 15, 65, 255})
                                        if (lb <= 255 && lb > t.a + crc)
                                            fn(ref::tecmpFrame(hf, ref::tecmpCanPayload(arb, (uint8_t) lb, data, crc)));
                                }
                            if (arb == 0x321)
                                declVariants(ref::tecmpFrame(h, ref::tecmpCanPayload(arb, (uint8_t) t.a, data, crc)));
                            // declared payload length larger than the buffer
                            ref::TecmpHdr h2 = h;
                            Bytes pl = ref::tecmpCanPayload(arb, (uint8_t) t.a, data, crc);
                            h2.plen = (uint16_t) (pl.size() + 1);
                            fn(ref::tecmpFrame(h2, pl, false));
                            // payload shorter than its fixed header
                            for (size_t cut = 0; cut < 5; ++cut)
                            {
                                Bytes shortp(pl.begin(), pl.begin() + cut);
                                if (!shortp.empty())
                                    fn(ref::tecmpFrame(h, shortp));
                            }
                        }
                    }
    }
    else if (t.part == 'L')   // LIN: data length t.a, all 256 pids
    {
        for (int pid = 0; pid < 256; ++pid)
            for (int cs = 0; cs < 2; ++cs)
            {
                ref::TecmpHdr h = hdr(pid % 27);
                h.msgType = ref::TM_DATA; h.dataType = ref::TD_LIN;
                Bytes data = patt((size_t) t.a, (unsigned) (t.a + 100));
                fn(ref::tecmpFrame(h, ref::tecmpLinPayload((uint8_t) pid, (uint8_t) t.a, data, cs != 0, (uint8_t) (pid ^ 0x5A))));
                if (pid < 4)
                {
                    for (int lb : {t.a + 1 + cs, t.a + 2 + cs, 200, 255})
                        if (lb <= 255)
                            fn(ref::tecmpFrame(h, ref::tecmpLinPayload((uint8_t) pid, (uint8_t) lb, data, cs != 0, 0x11)));
                    Bytes one = {(uint8_t) pid};
                    fn(ref::tecmpFrame(h, one));
                    if (pid == 0)
                        declVariants(ref::tecmpFrame(h, ref::tecmpLinPayload((uint8_t) pid, (uint8_t) t.a, data, cs != 0, 0x11)));
                    if (pid == 0)
                        for (int bit = 0; bit < 32; ++bit)
                        {
                            ref::TecmpHdr hf = h;
                            (bit < 16 ? hf.dataFlags : hf.deviceFlags) = (uint16_t) (1u << (bit & 15));
                            fn(ref::tecmpFrame(hf, ref::tecmpLinPayload((uint8_t) pid, (uint8_t) t.a, data, cs != 0, 0x11)));
                            for (int lb : {t.a + 1 + cs, 200, 255})
                                fn(ref::tecmpFrame(hf, ref::tecmpLinPayload((uint8_t) pid, (uint8_t) lb, data, cs != 0, 0x11)));
                        }
                }
            }
    }
    else if (t.part == 'M')   // capture-module status
    {
        const uint32_t serials[] = {0, 23140065u, 0xFFFFFFFFu};
        const uint8_t vb[] = {0, 7, 255};
        for (uint32_t sn : serials)
            for (int k = 0; k < 243; ++k)
            {
                ref::TecmpHdr h = hdr(k % 27);
                h.msgType = ref::TM_CM_STATUS; h.dataType = (uint16_t) (k % 2 ? 0 : 0x0001);
                Bytes p;
                ref::put8(p, 0x0C); ref::put8(p, 3); ref::put8(p, 8); ref::put8(p, 0); ref::put16(p, 24); ref::put16(p, h.device); ref::put32(p, sn);
                ref::put8(p, 0);
                ref::put8(p, vb[k % 3]); ref::put8(p, vb[(k / 3) % 3]); ref::put8(p, vb[(k / 9) % 3]);   // sw major/minor/patch
                ref::put8(p, vb[(k / 27) % 3]); ref::put8(p, vb[(k / 81) % 3]);                           // hw major/minor
                ref::put8(p, 50); ref::put8(p, 0); ref::put32(p, 4096); ref::put64(p, 0x1111222233334444ull); ref::put8(p, 12); ref::put8(p, 34); ref::put8(p, 45);
                ref::put8(p, 46);
                fn(ref::tecmpFrame(h, p));
                // every value of every one-byte code of the generic part (vendor id, capture-module version, DEVICE TYPE, reserved) and
                // of the other single bytes of the status header: whatever is looked up in a table is looked up for all 256 values
                if (k == 0 && sn == serials[1])
                    for (size_t pos : {(size_t) 0, (size_t) 1, (size_t) 2, (size_t) 3, (size_t) 12, (size_t) 18, (size_t) 19, (size_t) 32, (size_t) 33, (size_t) 34, (size_t) 35})
                        for (int val = 0; val < 256; ++val)
                        {
                            Bytes q = p;
                            q[pos] = (uint8_t) val;
                            fn(ref::tecmpFrame(h, q));
                        }
                if (k < 3)
                    for (size_t trail : {(size_t) 1, (size_t) 16, (size_t) 40})
                        for (uint8_t tb : {(uint8_t) 0x00, (uint8_t) 0x01, (uint8_t) 0xFF})
                        {
                            Bytes g = ref::tecmpFrame(h, p);   // declared length = the status message
                            g.insert(g.end(), trail, tb);
                            fn(g);
                        }
                if (k == 0)
                    declVariants(ref::tecmpFrame(h, p));
                if (k == 0)
                    for (size_t cut = 1; cut < p.size(); ++cut)   // payload shorter than the 36-byte status header
                    {
                        fn(ref::tecmpFrame(h, Bytes(p.begin(), p.begin() + cut)));
                        // ... that also ANNOUNCES less vendor data than the status header needs (payload bytes 4..5)
                        if (cut >= 6)
                            for (uint16_t vdl : {(uint16_t) 0, (uint16_t) 1, (uint16_t) 3, (uint16_t) 5, (uint16_t) 12, (uint16_t) (cut - 12), (uint16_t) 0xFFFF})
                            {
                                Bytes q(p.begin(), p.begin() + cut);
                                q[4] = (uint8_t) (vdl >> 8);
                                q[5] = (uint8_t) vdl;
                                fn(ref::tecmpFrame(h, q));
                            }
                    }
            }
    }
    else if (t.part == 'B')   // bus status: entry count t.a
    {
        for (int v = 0; v < 27; ++v)
        {
            ref::TecmpHdr h = hdr(v);
            h.msgType = ref::TM_BUS_STATUS; h.dataType = 0;
            Bytes p;
            ref::put8(p, 0x0C); ref::put8(p, 3); ref::put8(p, 8); ref::put8(p, 0); ref::put16(p, 12 * t.a); ref::put16(p, h.device); ref::put32(p, 99);
            for (int i = 0; i < t.a; ++i)
            {
                ref::put32(p, 0x01000000u * (i + 1) + i); ref::put32(p, 0xA0000000u + 1000 * i + v); ref::put32(p, 0x00000100u * i + 7);
            }
            fn(ref::tecmpFrame(h, p));
            // entries that repeat: two adjacent identical entries, the first equal to the last, all entries identical, all zero -
            // still one interface-status packet per entry, in wire order
            if (v < 2 && t.a >= 2)
            {
                for (int mode = 0; mode < 4; ++mode)
                {
                    Bytes q(p.begin(), p.begin() + 12);
                    for (int i = 0; i < t.a; ++i)
                    {
                        int j = mode == 0 ? (i == 1 ? 0 : i) : (mode == 1 ? (i == t.a - 1 ? 0 : i) : 0);
                        if (mode == 3)
                        {
                            ref::put32(q, 0); ref::put32(q, 0); ref::put32(q, 0);
                        }
                        else
                        {
                            ref::put32(q, 0x01000000u * (j + 1) + j); ref::put32(q, 0xA0000000u + 1000 * j + v); ref::put32(q, 0x00000100u * j + 7);
                        }
                    }
                    fn(ref::tecmpFrame(h, q));
                }
            }
            if (v == 0)
                declVariants(ref::tecmpFrame(h, p));
            if (v == 0)
                for (size_t cut = 1; cut < std::min<size_t>(p.size(), 14); ++cut)   // shorter than the 12-byte generic header / partial entry
                    fn(ref::tecmpFrame(h, Bytes(p.begin(), p.begin() + cut)));
        }
    }
    else if (t.part == 'Y')   // data messages: EVERY data type with a zero high byte (and the same with high byte 1) x payloads that parse as CAN and as LIN
    {
        for (int hi = 0; hi < 2; ++hi)
            for (int lo = 0; lo < 256; ++lo)
                for (int shape = 0; shape < 3; ++shape)
                {
                    ref::TecmpHdr h = hdr(lo % 27);
                    h.msgType = ref::TM_DATA; h.dataType = (uint16_t) ((hi << 8) | lo);
                    Bytes pl = shape == 0 ? ref::tecmpCanPayload(0x321, 4, patt(4, 1), 0) : (shape == 1 ? ref::tecmpCanPayload(0x321, 12, patt(12, 2), 3) : ref::tecmpLinPayload(0x2A, 3, patt(3, 3), true, 0x5C));
                    fn(ref::tecmpFrame(h, pl));
                }
    }
    else if (t.part == 'X')   // message type t.a (all 256) x data types x payload lengths x length byte
    {
        // defined types, undefined ones, and values whose LOW byte is a supported type while the high byte is not zero
        // (and vice versa): a dispatch on a truncated or swapped data type must not convert them
        std::vector<uint16_t> dts = {2, 3, 4, 8, 0x10, 0x20, 0x80, 0, 1, 0xFF, 0xFF00, 0x1234, 0x0102, 0x8003, 0xFF04, 0x0104, 0x0200, 0x0300, 0x0400, 0x0202};
        for (uint16_t dt : dts)
            for (int plen = 0; plen <= 40; ++plen)
            {
                std::vector<int> lbs = {0, 1, plen - 6, plen - 5, plen - 4, plen - 3, plen - 2, plen - 1, 8, 9, 64, 65, 255};
                std::sort(lbs.begin(), lbs.end());
                lbs.erase(std::unique(lbs.begin(), lbs.end()), lbs.end());
                for (int lb : lbs)
                {
                    if (lb < 0)
                        continue;
                    ref::TecmpHdr h = hdr(plen % 27);
                    h.msgType = (uint8_t) t.a; h.dataType = dt;
                    Bytes p = patt((size_t) plen, (unsigned) plen);
                    if (plen >= 5)
                        p[4] = (uint8_t) lb;     // CAN length byte position
                    if (plen >= 2)
                        p[1] = (uint8_t) lb;     // LIN length byte position
                    if (plen >= 4)
                        p[0] = p[1] = p[2] = 0;  // arbitration id within 29 bits for the CAN view
                    if (plen >= 2)
                        p[1] = (uint8_t) lb;
                    fn(ref::tecmpFrame(h, p));
                }
            }
    }
    else if (t.part == 'D')   // thorough: all 65536 data types for message type data, striped by high byte t.a
    {
        for (int lo = 0; lo < 256; ++lo)
        {
            ref::TecmpHdr h = hdr(lo % 27);
            h.msgType = ref::TM_DATA; h.dataType = (uint16_t) (t.a << 8 | lo);
            fn(ref::tecmpFrame(h, ref::tecmpCanPayload(0x77, 3, {1, 2, 3}, 3)));
            fn(ref::tecmpFrame(h, ref::tecmpLinPayload(0x12, 2, {1, 2}, true, 9)));
            fn(ref::tecmpFrame(h, patt(1, 1)));
        }
    }
    (void) thorough;
}

static std::vector<TTask> tecmpTasks(bool thorough, bool forSafety)
{
    std::vector<TTask> t;
    for (int n = 0; n <= 64; ++n)
        t.push_back({'C', n, 0});
    // length bytes above the CAN-FD maximum WITH that many bytes present (consistent, though no bus can produce them): whatever the
    // converter makes of them must stay within its own bytes
    for (int n : {65, 66, 100, 127, 128, 200, 250})
        t.push_back({'C', n, 0});
    for (int n = 0; n <= (thorough ? 64 : 8); ++n)
        t.push_back({'L', n, 0});
    for (int n : {0, 1, 4, 8, 12, 64})
        t.push_back({'E', n, 0});
    t.push_back({'Y', 0, 0});
    t.push_back({'M', 0, 0});
    std::vector<int> counts = {0, 1, 2, 9, 40};
    if (thorough)
    {
        counts.clear();
        for (int i = 0; i <= 40; ++i)
            counts.push_back(i);
    }
    for (int n : counts)
        t.push_back({'B', n, 0});
    for (int mt = 0; mt < 256; ++mt)
        t.push_back({'X', mt, 0});
    if (thorough)
        for (int hi = 0; hi < 256; ++hi)
            t.push_back({'D', hi, 0});
    (void) forSafety;
    return t;
}

// ---------------------------------------------------------------------------------------------
// C03
struct ClsDef
{
    const char* name;
    uint8_t mt, pt;
    size_t hdr;
    uint32_t fullType;
};
static const ClsDef kCls[7] = {
    {"CanPayload", ref::MT_DATA, ref::PT_CAN, ref::HDR_CAN, PayloadType::can},
    {"CanFdPayload", ref::MT_DATA, ref::PT_CANFD, ref::HDR_CAN, PayloadType::canFd},
    {"LinPayload", ref::MT_DATA, ref::PT_LIN, ref::HDR_LIN, PayloadType::lin},
    {"EthernetPayload", ref::MT_DATA, ref::PT_ETH, ref::HDR_ETH, PayloadType::ethernet},
    {"AnalogPayload", ref::MT_DATA, ref::PT_ANALOG, ref::HDR_ANALOG, PayloadType::analog},
    {"CaptureModulePayload", ref::MT_STATUS, ref::PT_CM, ref::HDR_CM, PayloadType::cmStatMsg},
    {"InterfacePayload", ref::MT_STATUS, ref::PT_IF, ref::HDR_IF, PayloadType::ifStatMsg},
};

static bool libValid(int cls, const uint8_t* p, size_t n)
{
    switch (cls)
    {
        case 0: return CanPayload::isValidPayload(p, n);
        case 1: return CanFdPayload::isValidPayload(p, n);
        case 2: return LinPayload::isValidPayload(p, n);
        case 3: return EthernetPayload::isValidPayload(p, n);
        case 4: return AnalogPayload::isValidPayload(p, n);
        case 5: return CaptureModulePayload::isValidPayload(p, n);
        default: return InterfacePayload::isValidPayload(p, n);
    }
}

static void judgeC03(W& w, int cls, const Bytes& buf)
{
    const ClsDef& c = kCls[cls];
    uint8_t* copy = static_cast<uint8_t*>(malloc(buf.size() ? buf.size() : 1));
    memcpy(copy, buf.data(), buf.size());
    bool ok = libValid(cls, copy, buf.size());
    uint64_t oh = mc::mix(cls, ok);
    if (ok)
    {
        std::unique_ptr<Payload> p;
        switch (cls)
        {
            case 0: p = std::make_unique<CanPayload>(copy, buf.size()); break;
            case 1: p = std::make_unique<CanFdPayload>(copy, buf.size()); break;
            case 2: p = std::make_unique<LinPayload>(copy, buf.size()); break;
            case 3: p = std::make_unique<EthernetPayload>(copy, buf.size()); break;
            case 4: p = std::make_unique<AnalogPayload>(copy, buf.size()); break;
            case 5: p = std::make_unique<CaptureModulePayload>(copy, buf.size()); break;
            default: p = std::make_unique<InterfacePayload>(copy, buf.size()); break;
        }
        free(copy);
        copy = nullptr;
        oh = mc::mix(oh, sweepTyped(w, *p, c.fullType));
    }
    if (copy)
        free(copy);
    w.add(mc::C_TRANS, 1);
    // the same buffer inside a frame through a real decoder
    if (buf.size() <= 65535)
    {
        ref::FrameHdr fh;
        fh.device = 3; fh.stream = 4; fh.msgType = c.mt;
        Buf b;
        b.base = ref::buildFrame(fh, {ref::mkMsg(c.pt, buf, 0, 11, 12)});
        Decoder d;
        Decoded r = decodeExact(d, b);
        w.add(mc::C_TRANS, 1);
        for (auto& p : r.packets)
            if (p && p->isValid())
                oh = mc::mix(oh, sweepTyped(w, p->getPayload(), p->getPayload().getType().getType()));
        oh = mc::mix(oh, r.packets.size());
    }
    w.outcome(oh);
}

static Bytes background(size_t len, int bg)
{
    Bytes b(len);
    for (size_t i = 0; i < len; ++i)
        b[i] = bg == 0 ? 0x00 : (bg == 1 ? 0xFF : (uint8_t) (i + 1));
    return b;
}

static std::vector<size_t> c03Lengths(size_t hdr, bool thorough)
{
    std::vector<size_t> l;
    for (size_t i = 0; i <= hdr + 8; ++i)
        l.push_back(i);
    l.push_back(hdr + 40);
    l.push_back(300);
    l.push_back(1400);   // room for sections whose length fields have two non-zero bytes (>= 0x0101)
    if (thorough)
    {
        l.push_back(hdr + 255);
        l.push_back(hdr + 256);
        l.push_back(1500);
        l.push_back(65535);
    }
    return l;
}

static std::vector<long> lenValues(long fit, int width)
{
    std::vector<long> v = {0, 1, 2, fit - 1, fit, fit + 1, 0x7F, 0x80, 0xFF};
    if (width == 2)
        for (long x : {0x100l, 0x7FFFl, 0x8000l, 0xFFFFl})
            v.push_back(x);
    std::vector<long> o;
    long maxv = width == 1 ? 0xFF : 0xFFFF;
    for (long x : v)
        if (x >= 0 && x <= maxv && std::find(o.begin(), o.end(), x) == o.end())
            o.push_back(x);
    return o;
}

// enumerate buffers of class cls with length len
template <class Fn>
static void c03Buffers(int cls, size_t len, Fn fn)
{
    for (int bg = 0; bg < 3; ++bg)
    {
        Bytes base = background(len, bg);
        size_t hdr = kCls[cls].hdr;
        auto set = [&](Bytes& b, size_t off, uint64_t v, int width) {
            if (off + width <= b.size())
                ref::wr(&b[off], v, width);
        };
        if (cls <= 1)   // CAN / CAN-FD: flags x error position x data length
            for (int fl = 0; fl < 3; ++fl)
                for (long dl : lenValues((long) len - (long) hdr, 1))
                {
                    Bytes b = base;
                    if (fl < 2) { set(b, 0, fl == 0 ? 0 : 0x3C00, 2); set(b, 12, 0, 2); }
                    set(b, 15, (uint64_t) dl, 1);
                    fn(b);
                }
        if (cls <= 3 && bg == 0 && len >= hdr)   // every single flag bit alone on an otherwise consistent zero payload
            for (int bit = 0; bit < 16; ++bit)
            {
                Bytes b = base;
                set(b, 0, 1u << bit, 2);
                fn(b);
            }
        else if (cls == 2)   // LIN
            for (int fl = 0; fl < 2; ++fl)
                for (long dl : lenValues((long) len - (long) hdr, 1))
                {
                    Bytes b = base;
                    if (fl == 0) set(b, 0, 0, 2);
                    set(b, 7, (uint64_t) dl, 1);
                    fn(b);
                }
        else if (cls == 3)   // Ethernet
            for (int fl = 0; fl < 3; ++fl)
                for (long dl : lenValues((long) len - (long) hdr, 2))
                {
                    Bytes b = base;
                    if (fl < 2) set(b, 0, fl == 0 ? 0 : 0x00C4, 2);
                    set(b, 4, (uint64_t) dl, 2);
                    fn(b);
                }
        else if (cls == 4)   // analog: sample type bits
            for (int dt = 0; dt < 5; ++dt)
            {
                Bytes b = base;
                if (dt < 4) set(b, 0, (uint64_t) dt, 2);
                fn(b);
            }
        else if (cls == 5)   // capture module: full product of 5 section lengths over {0,2,R,R+1,0xFFFF,3}
        {
            const int NV = 6;
            int idx[5] = {0, 0, 0, 0, 0};
            while (true)
            {
                Bytes b = base;
                size_t o = hdr;
                for (int s = 0; s < 5; ++s)
                {
                    long R = (long) len - (long) o - 2;
                    long v;
                    switch (idx[s])
                    {
                        case 0: v = 0; break;
                        case 1: v = 2; break;
                        case 2: v = std::max(0l, R - 2 * (4 - s)); break;   // leaves room for the following length fields
                        case 3: v = std::max(0l, R) + 1; break;
                        case 4: v = 0xFFFF; break;
                        default: v = 3; break;
                    }
                    if (v > 0xFFFF) v = 0xFFFF;
                    if (o + 2 <= b.size())
                        ref::wr(&b[o], (uint64_t) v, 2);
                    o += 2 + (size_t) v;
                    if (o > b.size() + 70000)
                        o = b.size() + 70000;
                }
                fn(b);
                int k = 4;
                while (k >= 0 && ++idx[k] == NV)
                    idx[k--] = 0;
                if (k < 0)
                    break;
            }
        }
        if (cls == 5 && len >= 36 + 5 * 0x0101)
        {
            // sections without any zero byte: every section length >= 0x0101 (both length bytes non-zero), contents from the
            // background (0xFF / 0xA5), the last section takes exactly the rest: a string scan that ignores the section
            // length finds no terminator inside the payload
            const long L[3] = {0x0101, 0x0102, 0x0111};
            for (int fill = 0; fill < 2; ++fill)
                for (int a = 0; a < 3; ++a)
                    for (int b2 = 0; b2 < 3; ++b2)
                        for (int c2 = 0; c2 < 3; ++c2)
                            for (int d2 = 0; d2 < 3; ++d2)
                            {
                                Bytes b(len, fill ? 0xA5 : 0xFF);
                                long ls[5] = {L[a], L[b2], L[c2], L[d2], 0};
                                long used = (long) hdr + 10 + ls[0] + ls[1] + ls[2] + ls[3];
                                ls[4] = (long) len - used;
                                if (ls[4] < 0x0101)
                                    continue;
                                size_t o = hdr;
                                for (int s5 = 0; s5 < 5; ++s5)
                                {
                                    ref::wr(&b[o], (uint64_t) ls[s5], 2);
                                    o += 2 + (size_t) ls[s5];
                                }
                                fn(b);
                            }
        }
        if (cls != 6)
            continue;
        // interface: status byte x stream count x vendor length
            for (int st = 0; st < 2; ++st)
                for (long sc : lenValues((long) len - (long) hdr - 4, 2))
                {
                    size_t vo = hdr + 2 + (size_t) sc + (size_t) (sc % 2);
                    for (long vl : lenValues((long) len - (long) vo - 2, 2))
                    {
                        Bytes b = base;
                        if (st == 0) set(b, 29, 1, 1);
                        set(b, hdr, (uint64_t) sc, 2);
                        set(b, vo, (uint64_t) vl, 2);
                        fn(b);
                    }
                }
    }
}

// TECMP frame through a real decoder: typed views of every valid packet in bounds
static void judgeC03Tecmp(W& w, const Bytes& f)
{
    Buf b;
    b.base = f;
    Decoder d;
    Decoded r = decodeExact(d, b);
    w.add(mc::C_TRANS, 1);
    uint64_t oh = r.packets.size();
    for (auto& p : r.packets)
        if (p && p->isValid())
            oh = mc::mix(oh, sweepTyped(w, p->getPayload(), p->getPayload().getType().getType()));
    w.outcome(oh);
}

// message-level: isValidPacket(buf, n) => Packet(type, buf, n) constructs without reading past the end
static void judgeC03Packet(W& w, uint8_t mt, const Bytes& buf)
{
    uint8_t* copy = static_cast<uint8_t*>(malloc(buf.size() ? buf.size() : 1));
    memcpy(copy, buf.data(), buf.size());
    bool ok = Packet::isValidPacket(copy, buf.size());
    uint64_t oh = ok;
    if (ok)
    {
        Packet p(static_cast<CmpHeader::MessageType>(mt), copy, buf.size());
        free(copy);
        copy = nullptr;
        obs::PObs o = obs::observe(p);
        oh = mc::mix(oh, obs::digest(o));
        if (o.valid)
            oh = mc::mix(oh, sweepTyped(w, p.getPayload(), o.fullType));
        if (buf.size() >= 16 && o.len != ref::rd(&buf[14], 2))
            w.fail("packet-length-differs-from-message-header", fmt("packet reports %u payload bytes, header declares %llu", o.len, (unsigned long long) ref::rd(&buf[14], 2)));
    }
    if (copy)
        free(copy);
    w.add(mc::C_TRANS, 1);
    w.outcome(oh);
}

// ---------------------------------------------------------------------------------------------
// Histories with one aborted decode call (C02: "after any history of earlier decode calls" includes calls that ended in an
// exception; C03: every packet returned as valid afterwards has its views inside its own bytes - judgeC02 sweeps all typed
// accessors of every valid packet under ASan). Enumerates, for every buffer of the history, every allocation of its decode call.
static void abortedHistories(W& w, const std::vector<Buf>& h)
{
    for (size_t i = 0; i < h.size(); ++i)
        for (int n = 1; n < 100; ++n)
        {
            {
                // probe without judging: does the call make n allocations?
                Decoder d;
                bool fired = false;
                for (size_t q = 0; q <= i; ++q)
                {
                    if (q == i)
                    {
                        Bytes f = h[q].full();
                        mc::af::arm(n);
                        try
                        {
                            auto lost = d.decode(f.data(), f.size());
                            mc::af::disarm();
                        }
                        catch (const std::bad_alloc&)
                        {
                        }
                        fired = mc::af::disarm();
                    }
                    else
                        decodeExact(d, h[q]);
                }
                if (!fired)
                    break;
            }
            auto desc = [&] { return showHist(0, h) + fmt(";abort=%zu:%d", i, n); };
            if (!w.begin_case(desc))
                continue;
            judgeC02(w, 0, h, (int) i, n);
            w.add(mc::C_TRACES, 1);
            w.add(mc::C_STATES, h.size() + 1);
        }
}

static std::vector<std::vector<Buf>> abortBaseHistories(int cls, bool thorough)
{
    std::vector<std::vector<Buf>> out;
    auto seg = [](uint8_t mt, uint8_t pt, uint16_t seq, uint8_t sg, const Bytes& body) {
        ref::FrameHdr fh;
        fh.device = 3; fh.stream = 4; fh.msgType = mt; fh.seq = seq;
        Buf x;
        x.base = ref::buildFrame(fh, {ref::mkMsg(pt, body, (uint8_t) (sg << 2), 11, 12)});
        return x;
    };
    if (cls < 0)
    {
        // generic payloads: F(a) [I(b)] L(c), then an unsegmented frame with two messages
        static const size_t sizes[] = {0, 1, 17, 1000};
        for (size_t a : sizes)
            for (size_t c : sizes)
                for (int bi = -1; bi < 4; ++bi)
                {
                    std::vector<Buf> h;
                    uint16_t seq = 65534;
                    h.push_back(seg(ref::MT_DATA, 0xFE, seq++, ref::SEG_FIRST, patt(a, 1)));
                    if (bi >= 0)
                        h.push_back(seg(ref::MT_DATA, 0xFE, seq++, ref::SEG_MID, patt(sizes[bi], 2)));
                    h.push_back(seg(ref::MT_DATA, 0xFE, seq++, ref::SEG_LAST, patt(c, 3)));
                    ref::FrameHdr fh;
                    fh.device = 3; fh.stream = 4; fh.seq = seq;
                    Buf u;
                    u.base = ref::buildFrame(fh, {ref::mkMsg(0xFE, patt(5, 4), 0, 13, 14), ref::mkMsg(0xFE, patt(6, 5), 0, 15, 16)});
                    h.push_back(u);
                    out.push_back(h);
                }
        return out;
    }
    // typed payloads of class cls (every buffer of the C03 generator at header + 8 bytes, thorough: + 40): unsegmented, and split over two segments
    for (size_t len : {kCls[cls].hdr + 8, kCls[cls].hdr + 40})
    {
        if (len != kCls[cls].hdr + 8 && !thorough)
            continue;
        c03Buffers(cls, len, [&](const Bytes& b) {
            if (b.size() < 2 || b.size() > 65535)
                return;
            out.push_back({seg(kCls[cls].mt, kCls[cls].pt, 65535, ref::SEG_NONE, b)});
            size_t cut = b.size() / 2;
            out.push_back({seg(kCls[cls].mt, kCls[cls].pt, 65535, ref::SEG_FIRST, Bytes(b.begin(), b.begin() + cut)), seg(kCls[cls].mt, kCls[cls].pt, 0, ref::SEG_LAST, Bytes(b.begin() + cut, b.end()))});
        });
    }
    return out;
}

// very long buffer: n well-formed unsegmented messages (generic empty ones or CAN) behind one frame header
static void judgeLongBuffer(W& w, size_t n, bool can)
{
    ref::FrameHdr fh;
    fh.device = 0x21; fh.stream = 2; fh.msgType = ref::MT_DATA; fh.seq = 1;
    ref::CanF cf;
    cf.idword = 0x155; cf.dataLen = 2; cf.dlc = 2; cf.data = patt(2, 1);
    ref::Msg m = can ? ref::mkMsg(ref::PT_CAN, ref::canPayload(cf), 0, 7, 8) : ref::mkMsg(0xFE, Bytes{}, 0, 7, 8);
    Bytes one = ref::buildFrame(fh, {m});
    Bytes f(one.begin(), one.begin() + 8);
    f.reserve(8 + n * (one.size() - 8));
    for (size_t i = 0; i < n; ++i)
        f.insert(f.end(), one.begin() + 8, one.end());
    Decoder d;
    Buf b;
    b.base = f;
    Decoded r = decodeExact(d, b);
    w.add(mc::C_TRANS, 1);
    if (r.inputChanged)
        w.fail("safety:decoder-wrote-to-input-buffer", "the long buffer was modified by decode()");
    if (r.packets.size() != n)
        w.fail("safety:long-buffer-packet-count", fmt("%zu well-formed messages in one buffer: %zu packets returned", n, r.packets.size()));
    uint64_t h = r.packets.size();
    for (size_t i = 0; i < r.packets.size(); i += std::max<size_t>(1, r.packets.size() / 64))
        if (r.packets[i])
            h = mc::mix(h, obs::digest(obs::observe(*r.packets[i])));
    w.outcome(h);
}

static void abortedRound(mc::Run& run, bool thorough)
{
    run.round("histories with a decode call aborted at its n-th allocation (every n, every buffer) and repeated: reassembly F(a) [I(b)] L(c) [U U] over sizes {0,1,17,1000}, and the typed payloads of the 7 classes unsegmented / split over two segments",
              8, [&, thorough](W& w, uint64_t o) {
                  for (auto& h : abortBaseHistories((int) o - 1, thorough))
                      abortedHistories(w, h);
              });
}

int main(int argc, char** argv)
{
    mc::Options opt = mc::parse_args(argc, argv, "wire");
    mc::Run run(opt);
    const std::string prop = opt.prop;
    const bool thorough = opt.tier == "thorough";
    run.assumptions = {
        "frames are produced by the independent builder in /verif/ref from field values; data bytes the decoder only copies are one pattern per message",
        "UBSan sub-checks alignment, vptr and nonnull-attribute are disabled on purpose (DESIGN.md 2.3)",
        "VERIF_SEED is ignored: nothing is sampled",
    };

    if (prop == "C04")
    {
        Corpus corpus = makeCorpus();
        run.rule = fmt("frames = 180 frame headers x {no message, each of %zu alphabet messages}, all ordered message pairs and all triples over a %zu-message "
                       "sub-alphabet under data and status headers; each frame as is, cut at EVERY byte offset, zero-padded by {1,15,16,17,40}; each on a fresh real "
                       "Decoder and on three decoders with history; expected packets come from an independent parser of the same bytes with three-valued validity; "
                       "distinct = distinct decoded results (all getters + bytes)",
                       corpus.A.size(), corpus.sub.size());
        run.replay_case = [](W& w, const std::string& cs) {
            auto kv = mc::kv_parse(cs);
            judgeC04(w, atoi(kv["pre"].c_str()), Buf::parse(kv["f"]));
        };
        if (!opt.case_file.empty())
            return run.run_single(readCase(opt.case_file));
        run.round("ground truth: CMP CAN message copied from Wireshark in tests/test_packet.cpp", 1, [&](W& w, uint64_t) {
            ref::FrameHdr fh;
            fh.device = 0x21; fh.stream = 4; fh.msgType = ref::MT_DATA; fh.seq = 3;
            Buf b;
            ref::putFrameHdr(b.base, fh);
            ref::putbytes(b.base, captures::kCmpCanMessage);
            auto desc = [&] { return "pre=0;f=" + b.show(); };
            if (!w.begin_case(desc))
                return;
            Expect e = expectCmp(b.base.data(), b.base.size());
            bool ok = e.prefix.size() == 1 && e.prefix[0].h.ts == 0x17e03e886b8663cdull && e.prefix[0].h.idword == 1 && e.prefix[0].h.ptype == ref::PT_CAN && e.prefix[0].h.plen == 21 &&
                      e.prefix[0].v == ref::MUST_VALID && ref::rd(&e.prefix[0].payload[4], 4) == 0x182 && e.prefix[0].payload[14] == 5 && e.prefix[0].payload[15] == 5;
            if (!ok)
                w.fail("oracle-self-check:independent-cmp-parser-disagrees-with-wireshark-capture", "CAN message capture");
            judgeC04(w, 0, b);
            // the typed getters must report the values Wireshark shows
            Decoder d;
            auto pk = d.decode(b.base.data(), b.base.size());
            if (pk.size() == 1 && pk[0]->isValid() && pk[0]->getPayload().getType() == PayloadType::can)
            {
                auto& c = static_cast<const CanPayload&>(pk[0]->getPayload());
                if (c.getId() != 0x182 || c.getDlc() != 5 || c.getDataLength() != 5 || c.getData() == nullptr || c.getData()[1] != 0x9f || c.getFlags() != 0 || c.getIde())
                    w.fail("wire:typed-getters-differ-from-wireshark-capture", fmt("id 0x%x dlc %u len %u", c.getId(), c.getDlc(), c.getDataLength()));
            }
            else
                w.fail("wire:capture-not-decoded-as-valid-can", "the Wireshark CAN capture did not decode to one valid CAN packet");
            w.add(mc::C_TRACES, 1);
            w.add(mc::C_STATES, 1);
        });
        auto tasks = c04Tasks(corpus, thorough);
        for (char part : {'H', 'F', 'Y', 'P', 'T', 'Q'})
        {
            std::vector<C04Task> ts;
            for (auto& t : tasks)
                if (t.part == part)
                    ts.push_back(t);
            if (ts.empty())
                continue;
            const char* nm = part == 'H' ? "header sweep x {0,1} message" : part == 'F' ? "every single flag bit alone x 5 typed data classes" : part == 'Y' ? "every payload type byte 0..255 x 6 frame message types (incl. 0) x {valid CAN image, image with a lying inner length}" : (part == 'P' ? "all ordered message pairs" : (part == 'T' ? "all triples over the sub-alphabet" : "all quadruples over the sub-alphabet"));
            run.round(nm, ts.size(), [&, ts](W& w, uint64_t o) { runC04Task(w, corpus, ts[o]); });
        }
        return run.finish();
    }

    if (prop == "C02")
    {
        C02Ctx ctx = makeC02(thorough);
        run.rule = fmt("%zu well-formed CMP/TECMP seed frames x {as is, EVERY truncation, every byte set to {00,01,7F,80,FF,orig-1,orig+1}, every adjacent byte pair set to "
                       "{0000,FFFF,7FFF,8000,0100,00FF,remaining-1,remaining,remaining+1}, zero/0xFF extensions up to 64 KiB} x 4 decoder pre-states; TECMP sweep "
                       "(256 message types x 20 data types x payload length 0..40 x 13 length bytes); all ordered pairs%s of a %zu-element sub-corpus on one decoder; "
                       "oracle: ASan/UBSan clean, input unchanged, <= len/12 packets, packets non-null with payload, digest of every getter/byte/typed accessor "
                       "unchanged after input release, ten more frames and decoder destruction; distinct = distinct result digests",
                       ctx.seeds.size(), thorough ? " and triples" : "", ctx.sub.size());
        run.replay_case = [](W& w, const std::string& cs) {
            auto kv = mc::kv_parse(cs);
            std::vector<Buf> h;
            for (auto& s : mc::split(kv["h"], ','))
                h.push_back(Buf::parse(s));
            if (kv.count("long"))
                judgeLongBuffer(w, strtoull(kv["long"].c_str(), nullptr, 10), atoi(kv["can"].c_str()) != 0);
            else if (kv.count("abort"))
                judgeC02(w, atoi(kv["pre"].c_str()), h, atoi(kv["abort"].c_str()), atoi(kv["abort"].c_str() + kv["abort"].find(':') + 1));
            else
                judgeC02(w, atoi(kv["pre"].c_str()), h);
        };
        if (!opt.case_file.empty())
            return run.run_single(readCase(opt.case_file));
        auto one = [&](W& w, int pre, const Buf& b) {
            std::vector<Buf> h = {b};
            auto desc = [&] { return showHist(pre, h); };
            if (!w.begin_case(desc))
                return;
            judgeC02(w, pre, h);
            w.add(mc::C_TRACES, 1);
            w.add(mc::C_STATES, 1);
        };
        run.round("seeds: as is, every truncation, extensions (zero x {1,15,16,17}, 0xFF x 64 KiB, zero x 64 KiB) x 4 pre-states", ctx.seeds.size(), [&](W& w, uint64_t o) {
            const Bytes& s = ctx.seeds[o];
            forVariants(s, true, true, [&](const Buf& b) {
                for (int pre = 0; pre < NPRE; ++pre)
                    one(w, pre, b);
            });
            for (uint8_t eb : {(uint8_t) 0x00, (uint8_t) 0xFF})
            {
                Buf b;
                b.base = s;
                b.extByte = eb;
                b.extCount = 65536;
                one(w, 0, b);
                one(w, 1, b);
            }
        });
        run.round("seeds: every byte / adjacent byte pair corrupted x pre-states {fresh, open reassembly on the same endpoint}", ctx.seeds.size(), [&](W& w, uint64_t o) {
            corruptions(ctx.seeds[o], [&](const Buf& b) {
                one(w, 0, b);
                one(w, 1, b);
            });
        });
        {
            auto tt = tecmpTasks(thorough, true);
            run.round("TECMP sweep (C15 generators incl. inconsistent inner lengths, 256 message types x data types x payload lengths x length bytes)", tt.size(),
                      [&, tt](W& w, uint64_t o) {
                          tecmpEnumerate(tt[o], thorough, [&](const Bytes& f) {
                              Buf b;
                              b.base = f;
                              one(w, 0, b);
                          });
                      });
        }
        {
            // reassembly across the 64 KiB boundary: all segment-size sequences F(a) [I(b)] L(c) over a size set
            static const size_t sizes[] = {0, 1, 1000, 25536, 30000, 40000, 65519, 65520, 65535};
            const size_t ns = sizeof sizes / sizeof sizes[0];
            run.round("histories: reassembly F(a) [I(b)] L(c) for all segment sizes from {0,1,1000,25536,30000,40000,65519,65520,65535} (totals cross 64 KiB)", ns * ns,
                      [&](W& w, uint64_t o) {
                          size_t a = sizes[o / ns], c3 = sizes[o % ns];
                          for (size_t bi = 0; bi <= ns; ++bi)
                          {
                              std::vector<Buf> h;
                              uint16_t seq = 65534;
                              auto segFrame = [&](uint8_t seg, size_t len, uint8_t fill) {
                                  ref::FrameHdr fh;
                                  fh.device = 5; fh.stream = 6; fh.seq = seq++;
                                  ref::MsgHdr mh;
                                  mh.ts = 3; mh.idword = 4; mh.flags = (uint8_t) (seg << 2); mh.ptype = 0xFE; mh.plen = (uint16_t) len;
                                  Buf b;
                                  ref::putFrameHdr(b.base, fh);
                                  ref::putMsgHdr(b.base, mh);
                                  b.extByte = fill;
                                  b.extCount = len;
                                  return b;
                              };
                              h.push_back(segFrame(ref::SEG_FIRST, a, 0xA1));
                              if (bi < ns)
                                  h.push_back(segFrame(ref::SEG_MID, sizes[bi], 0xB2));
                              h.push_back(segFrame(ref::SEG_LAST, c3, 0xC3));
                              auto desc = [&] { return showHist(0, h); };
                              if (!w.begin_case(desc))
                                  continue;
                              judgeC02(w, 0, h);
                              w.add(mc::C_TRACES, 1);
                              w.add(mc::C_STATES, h.size());
                          }
                      });
        }
        // the typed-payload generator of C03 through the decoder: the payload validators run on the caller's buffer (message at
        // the very end of an exact-size frame) and on the reassembly buffer (payload split over two segments)
        {
            struct T { int cls; size_t len; };
            std::vector<T> ts;
            for (int cls = 0; cls < 7; ++cls)
                for (size_t l : c03Lengths(kCls[cls].hdr, thorough))
                    ts.push_back({cls, l});
            run.round("typed payloads (7 classes x lengths x backgrounds x inner length fields) as the last message of an exact-size frame, and split over two segments", ts.size(),
                      [&, ts](W& w, uint64_t o) {
                          const T& t = ts[o];
                          c03Buffers(t.cls, t.len, [&](const Bytes& b) {
                              if (b.size() > 65535)
                                  return;
                              for (int split = 0; split < 2; ++split)
                              {
                                  if (split && b.size() < 2)
                                      continue;
                                  std::vector<Buf> h;
                                  ref::FrameHdr fh;
                                  fh.device = 3; fh.stream = 4; fh.msgType = kCls[t.cls].mt; fh.seq = 65535;
                                  if (!split)
                                  {
                                      Buf x;
                                      x.base = ref::buildFrame(fh, {ref::mkMsg(kCls[t.cls].pt, b, 0, 11, 12)});
                                      h.push_back(x);
                                  }
                                  else
                                  {
                                      size_t cut = b.size() / 2;
                                      Buf x, y;
                                      x.base = ref::buildFrame(fh, {ref::mkMsg(kCls[t.cls].pt, Bytes(b.begin(), b.begin() + cut), (uint8_t) (ref::SEG_FIRST << 2), 11, 12)});
                                      fh.seq = 0;
                                      y.base = ref::buildFrame(fh, {ref::mkMsg(kCls[t.cls].pt, Bytes(b.begin() + cut, b.end()), (uint8_t) (ref::SEG_LAST << 2), 11, 12)});
                                      h.push_back(x);
                                      h.push_back(y);
                                  }
                                  auto desc = [&] { return showHist(0, h); };
                                  if (!w.begin_case(desc))
                                      continue;
                                  judgeC02(w, 0, h);
                                  w.add(mc::C_TRACES, 1);
                                  w.add(mc::C_STATES, h.size());
                              }
                          });
                      });
        }
        abortedRound(run, thorough);
        // very long buffers: N well-formed unsegmented messages behind one frame header (nothing limits a byte string to a frame size):
        // the call returns normally with N packets whatever N is - stack use, quadratic work and 32-bit offsets show only here
        {
            std::vector<size_t> ns = {4000, 65536, 300000};
            if (thorough)
                ns.push_back(2000000);
            run.round("very long buffers: N aggregated unsegmented messages in one buffer, N up to 300000 (thorough 2000000), generic and CAN", ns.size() * 2, [&, ns](W& w, uint64_t o) {
                size_t n = ns[o / 2];
                bool can = o % 2;
                auto desc = [&] { return fmt("long=%zu;can=%d", n, (int) can); };
                if (!w.begin_case(desc))
                    return;
                judgeLongBuffer(w, n, can);
                w.add(mc::C_TRACES, 1);
                w.add(mc::C_STATES, 1);
            });
        }
        run.round("histories: all ordered pairs of the sub-corpus on one decoder", ctx.sub.size(), [&](W& w, uint64_t o) {
            for (size_t j = 0; j < ctx.sub.size(); ++j)
            {
                std::vector<Buf> h = {ctx.sub[o], ctx.sub[j]};
                auto desc = [&] { return showHist(0, h); };
                if (!w.begin_case(desc))
                    continue;
                judgeC02(w, 0, h);
                w.add(mc::C_TRACES, 1);
                w.add(mc::C_STATES, 2);
            }
        });
        if (thorough)
        {
            run.round("histories: all ordered triples of the sub-corpus on one decoder", ctx.sub.size() * ctx.sub.size(), [&](W& w, uint64_t o) {
                size_t i = o / ctx.sub.size(), j = o % ctx.sub.size();
                for (size_t k = 0; k < ctx.sub.size(); ++k)
                {
                    std::vector<Buf> h = {ctx.sub[i], ctx.sub[j], ctx.sub[k]};
                    auto desc = [&] { return showHist(0, h); };
                    if (!w.begin_case(desc))
                        continue;
                    judgeC02(w, 0, h);
                    w.add(mc::C_TRACES, 1);
                    w.add(mc::C_STATES, 3);
                }
            });
            run.round("seeds: all pairs of corrupted byte positions within the first 48 bytes (values 00, FF, 80)", ctx.seeds.size(), [&](W& w, uint64_t o) {
                const Bytes& s = ctx.seeds[o];
                size_t lim = std::min<size_t>(s.size(), 48);
                for (size_t a = 0; a < lim; ++a)
                    for (size_t b2 = a + 1; b2 < lim; ++b2)
                        for (uint8_t va : {(uint8_t) 0x00, (uint8_t) 0xFF, (uint8_t) 0x80})
                            for (uint8_t vb : {(uint8_t) 0x00, (uint8_t) 0xFF, (uint8_t) 0x80})
                            {
                                Buf b;
                                b.base = s;
                                b.base[a] = va;
                                b.base[b2] = vb;
                                one(w, 0, b);
                            }
            });
        }
        return run.finish();
    }

    if (prop == "C03")
    {
        run.rule = "per typed payload class: buffer length = every value 0..header+8 and {header+40, 300} x backgrounds {00, FF, counting} x every inner length field over "
                   "{0,1,2,fit-1,fit,fit+1,7F,80,FF,100,7FFF,8000,FFFF} (full product for two-field classes, full 6^5 product of section lengths for the capture-module "
                   "class) x flag variants; if the class validator accepts: construct from an exact-size heap copy, free it, call every const accessor under ASan and check "
                   "every reported view against the payload's own bytes; the same buffer through a real Decoder; message-level isValidPacket => Packet constructor; "
                   "distinct = distinct (accepted?, accessor digest) outcomes";
        run.replay_case = [](W& w, const std::string& cs) {
            auto kv = mc::kv_parse(cs);
            if (kv.count("abort"))
            {
                std::vector<Buf> h;
                for (auto& s : mc::split(kv["h"], ','))
                    h.push_back(Buf::parse(s));
                judgeC02(w, 0, h, atoi(kv["abort"].c_str()), atoi(kv["abort"].c_str() + kv["abort"].find(':') + 1));
            }
            else if (kv.count("mt"))
                judgeC03Packet(w, (uint8_t) strtoul(kv["mt"].c_str(), nullptr, 16), mc::unhex(kv["m"]));
            else if (kv.count("tf"))
                judgeC03Tecmp(w, mc::unhex(kv["tf"]));
            else
                judgeC03(w, atoi(kv["cls"].c_str()), kv["b"] == "-" ? Bytes{} : mc::unhex(kv["b"]));
        };
        if (!opt.case_file.empty())
            return run.run_single(readCase(opt.case_file));
        struct T { int cls; size_t len; };
        std::vector<T> ts;
        for (int cls = 0; cls < 7; ++cls)
            for (size_t l : c03Lengths(kCls[cls].hdr, thorough))
                ts.push_back({cls, l});
        run.round("typed payload classes x buffer lengths x backgrounds x inner length fields", ts.size(), [&, ts](W& w, uint64_t o) {
            const T& t = ts[o];
            c03Buffers(t.cls, t.len, [&](const Bytes& b) {
                auto desc = [&] { return fmt("cls=%d;name=%s;b=", t.cls, kCls[t.cls].name) + (b.empty() ? std::string("-") : (b.size() <= 400 ? mc::hex(b) : mc::hex(b))); };
                if (!w.begin_case(desc))
                    return;
                judgeC03(w, t.cls, b);
                w.add(mc::C_TRACES, 1);
                w.add(mc::C_STATES, 1);
            });
        });
        // packets a decoder returns as valid from TECMP frames are built by the converter through the payload builders, not from
        // a validated buffer: their views must lie in their own bytes all the same
        {
            auto tt = tecmpTasks(thorough, true);
            run.round("TECMP frames (C15 generators incl. lying length bytes) through the decoder: views of every valid returned packet", tt.size(), [&, tt](W& w, uint64_t o) {
                tecmpEnumerate(tt[o], thorough, [&](const Bytes& f) {
                    auto desc = [&] { return "tf=" + mc::hex(f); };
                    if (!w.begin_case(desc))
                        return;
                    judgeC03Tecmp(w, f);
                    w.add(mc::C_TRACES, 1);
                    w.add(mc::C_STATES, 1);
                });
            });
        }
        // packets returned as valid after a decode call of the history was aborted by a failing allocation and repeated
        abortedRound(run, thorough);
        // message level
        run.round("message level: isValidPacket(buf) => Packet(type, buf): buffer length 0..48 x declared length x flags x payload type x frame message type", 49,
                  [&](W& w, uint64_t o) {
                      size_t len = (size_t) o;
                      for (int bg = 0; bg < 3; ++bg)
                          for (long pl : lenValues((long) len - 16, 2))
                              for (uint8_t fl : {(uint8_t) 0x00, (uint8_t) 0x40, (uint8_t) 0x0C, (uint8_t) 0xBF})
                                  for (uint8_t pt : {(uint8_t) 0, (uint8_t) 1, (uint8_t) 2, (uint8_t) 3, (uint8_t) 7, (uint8_t) 8, (uint8_t) 0xFE})
                                      for (uint8_t mt : {(uint8_t) 1, (uint8_t) 3, (uint8_t) 2})
                                      {
                                          Bytes b = background(len, bg);
                                          if (len >= 13) b[12] = fl;
                                          if (len >= 14) b[13] = pt;
                                          if (len >= 16) ref::wr(&b[14], (uint64_t) pl, 2);
                                          auto desc = [&] { return fmt("mt=%x;m=", mt) + mc::hex(b); };
                                          if (!w.begin_case(desc))
                                              continue;
                                          judgeC03Packet(w, mt, b);
                                          w.add(mc::C_TRACES, 1);
                                          w.add(mc::C_STATES, 1);
                                      }
                  });
        return run.finish();
    }

    if (prop == "C15")
    {
        run.rule = "TECMP frames from the independent builder: CAN/CAN-FD data length 0..64 x 3 arbitration ids x CRC trailer {0,2,3} bytes x header variants; LIN data length "
                   "0..8 (thorough 0..64) x all 256 pids x checksum present/absent; capture-module status x 3 serials x 3^5 version bytes; bus status with 0..40 entries; every "
                   "kind with inner lengths inconsistent with the buffer; message type = all 256 values x 12 data types x payload length 0..40 x 13 length bytes "
                   "(thorough: all 65536 data types); expected packets from an independent parse; distinct = distinct (expected kind, decoded result) outcomes";
        run.replay_case = [](W& w, const std::string& cs) {
            auto kv = mc::kv_parse(cs);
            if (kv.count("loc"))
            {
                GroupingLocale gl;
                judgeC15(w, mc::unhex(kv["f"]));
            }
            else
                judgeC15(w, mc::unhex(kv["f"]));
        };
        if (!opt.case_file.empty())
            return run.run_single(readCase(opt.case_file));
        // ground truth: the Wireshark captures embedded in the repository's tests, parsed by the independent
        // parser, must yield the values the suite asserts (oracle self-check), then the library is judged on them
        run.round("ground truth: Wireshark captures from tests/test_tecmp_decoder.cpp", 3, [&](W& w, uint64_t o) {
            const Bytes& f = o == 0 ? captures::kDecodeCaptureModulePayload : (o == 1 ? captures::kDecodeInterfacePayload : captures::kDecodeCanFdPayload);
            auto desc = [&] { return "f=" + mc::hex(f); };
            if (!w.begin_case(desc))
                return;
            TExp e = expectTecmp(f);
            bool ok = e.judged && !e.none && e.device == 0x43;
            if (o == 0)
                ok = ok && e.kind == 'M' && e.ts == 0x0000006114b53de0ull && e.serial == 23140065u && e.sw[0] == 20 && e.sw[1] == 7 && e.sw[2] == 10 && e.hw[0] == 3 && e.hw[1] == 3;
            else if (o == 1)
            {
                ok = ok && e.kind == 'B' && e.entries.size() == 9;
                for (size_t i = 0; ok && i < 9; ++i)
                    ok = e.entries[i].ifid == 0x10 * (i + 1);
            }
            else
                ok = ok && e.kind == 'C' && e.ifid == 0x20 && e.arbId == 0x321 && e.data.size() == 16;
            if (!ok)
                w.fail("oracle-self-check:independent-tecmp-parser-disagrees-with-wireshark-capture", fmt("capture %d", (int) o));
            judgeC15(w, f);
            w.add(mc::C_TRACES, 1);
            w.add(mc::C_STATES, 1);
        });
        auto tt = tecmpTasks(thorough, false);
        for (char part : {'C', 'L', 'E', 'Y', 'M', 'B', 'X', 'D'})
        {
            std::vector<TTask> ts;
            for (auto& t : tt)
                if (t.part == part)
                    ts.push_back(t);
            if (ts.empty())
                continue;
            const char* nm = part == 'C' ? "CAN / CAN-FD" : part == 'Y' ? "data messages of every data type 0x0000..0x01FF with payloads that parse as CAN / CAN-FD / LIN" : part == 'E' ? "CAN / CAN-FD / LIN data message followed by further bytes (second and third entries, lying and empty entry headers, header-like and zero trails)" : (part == 'L' ? "LIN" : (part == 'M' ? "capture-module status" : (part == 'B' ? "bus status" : (part == 'X' ? "all message types x data types x lengths" : "all 65536 data types"))));
            run.round(nm, ts.size(), [&, ts](W& w, uint64_t o) {
                tecmpEnumerate(ts[o], thorough, [&](const Bytes& f) {
                    auto desc = [&] { return "f=" + mc::hex(f); };
                    if (!w.begin_case(desc))
                        return;
                    judgeC15(w, f);
                    w.add(mc::C_TRACES, 1);
                    w.add(mc::C_STATES, 1);
                });
            });
        }
        // the process-wide C++ locale is an input of every conversion that formats text: the status messages (the only kind that
        // produces text: serial number, version strings) again under a global locale with digit grouping and another decimal point
        {
            std::vector<TTask> ts;
            for (auto& t : tt)
                if (t.part == 'M')
                    ts.push_back(t);
            run.round("capture-module status under a global C++ locale with digit grouping", ts.size() + 1, [&, ts](W& w, uint64_t o) {
                GroupingLocale gl;
                auto one = [&](const Bytes& f) {
                    auto desc = [&] { return "loc=1;f=" + mc::hex(f); };
                    if (!w.begin_case(desc))
                        return;
                    judgeC15(w, f);
                    w.add(mc::C_TRACES, 1);
                    w.add(mc::C_STATES, 1);
                };
                if (o == ts.size())
                    one(captures::kDecodeCaptureModulePayload);
                else
                    tecmpEnumerate(ts[o], thorough, one);
            });
        }
        return run.finish();
    }

    fprintf(stderr, "engine wire does not serve %s\n", prop.c_str());
    return 2;
}
