#include <stdexcept>
// Engine `enc`: properties C01 C07 C08 (small-scope input enumeration over batches x contexts) and
// C09 C10 (history trees over copied real Encoder objects).  See DESIGN.md section 4.
#include <asam_cmp/analog_payload.h>
#include <asam_cmp/can_fd_payload.h>
#include <asam_cmp/can_payload.h>
#include <asam_cmp/capture_module_payload.h>
#include <asam_cmp/decoder.h>
#include <asam_cmp/encoder.h>
#include <asam_cmp/ethernet_payload.h>
#include <asam_cmp/interface_payload.h>
#include <asam_cmp/lin_payload.h>

#include <cstdarg>

#include "engines/libobs.h"
#define MC_ALLOCFAULT_IMPL
#include "mc/allocfault.h"
#include "mc/harness.h"
#include "ref/layout_rules.h"
#include "ref/wire.h"

using namespace ASAM::CMP;
using mc::W;
using ref::Bytes;

static std::string fmt(const char* f, ...)
{
    char b[2048];
    va_list ap;
    va_start(ap, f);
    vsnprintf(b, sizeof b, f, ap);
    va_end(ap);
    return b;
}

// ---------------------------------------------------------------------------------------------
// Case description
struct PSpec
{
    uint8_t mt = 1;        // message type
    uint8_t pt = 0xFE;     // raw payload type byte
    uint32_t len = 1;
    uint8_t pat = 0;       // content pattern id
    uint64_t ts = 0;
    uint32_t ifid = 0;
    uint16_t vid = 0;
    uint8_t flags = 0;
    int proto = -1;        // >= 0: typed prototype
    uint8_t ver = 0;       // != 0: this packet's own protocol version (0: the batch's)
    int retag = 0;         // 1: the payload is given to the packet under ANOTHER type and re-typed in place through getPayload() afterwards
};

struct CaseSpec
{
    size_t mn = 0, mx = 1500;
    uint16_t dev = 1;
    uint8_t str = 1;
    uint8_t ver = 1;
    int junk = 0;          // input packets carry junk device/stream/sequence values
    int api = 0;           // 0 iterator-of-Packet, 1 single packet, 2 iterator-of-shared_ptr
    int pre = 0;           // earlier encode call on the SAME encoder: 0 none; same context, other version: 1 [small data], 2 [small status], 3 [segmenting data];
                           // same version, [small data]: 4 larger max, 5 smaller max, 6 same context, 7 minimum above this call's maximum;
                           // same context, call aborted by the packet source: 8 after [small data], 9 after [segmenting data, small data]; 10 same context, empty batch
    int longKind = 0;      // 200..202: the batch is GENERATED (70000 one-byte packets, see fillLong) and written as "long=<kind>" in case strings
    std::vector<PSpec> b;
};

static void fillLong(CaseSpec& c);

static std::string show(const CaseSpec& c)
{
    if (c.longKind)
        return fmt("mn=%zu;mx=%zu;dev=%x;str=%x;ver=%u;jk=%d;api=%d;pre=%d;long=%d;b=", c.mn, c.mx, c.dev, c.str, c.ver, c.junk, c.api, c.pre, c.longKind);
    std::string s = fmt("mn=%zu;mx=%zu;dev=%x;str=%x;ver=%u;jk=%d;api=%d;pre=%d;b=", c.mn, c.mx, c.dev, c.str, c.ver, c.junk, c.api, c.pre);
    for (size_t i = 0; i < c.b.size(); ++i)
    {
        const PSpec& p = c.b[i];
        s += fmt("%s%x,%x,%u,%u,%llx,%x,%x,%x,%d,%u,%d", i ? "|" : "", p.mt, p.pt, p.len, p.pat, (unsigned long long) p.ts, p.ifid, p.vid, p.flags,
                 p.proto, p.ver, p.retag);
    }
    return s;
}

static CaseSpec parseCase(const std::string& s)
{
    CaseSpec c;
    auto m = mc::kv_parse(s);
    c.mn = strtoull(m["mn"].c_str(), nullptr, 10);
    c.mx = strtoull(m["mx"].c_str(), nullptr, 10);
    c.dev = (uint16_t) strtoul(m["dev"].c_str(), nullptr, 16);
    c.str = (uint8_t) strtoul(m["str"].c_str(), nullptr, 16);
    c.ver = (uint8_t) strtoul(m["ver"].c_str(), nullptr, 10);
    c.junk = atoi(m["jk"].c_str());
    c.api = atoi(m["api"].c_str());
    c.pre = atoi(m["pre"].c_str());
    if (m.count("long"))
    {
        c.longKind = atoi(m["long"].c_str());
        fillLong(c);
        return c;
    }
    for (auto& ps : mc::split(m["b"], '|'))
    {
        auto f = mc::split(ps, ',');
        if (f.size() < 9)
            continue;
        PSpec p;
        p.mt = (uint8_t) strtoul(f[0].c_str(), nullptr, 16);
        p.pt = (uint8_t) strtoul(f[1].c_str(), nullptr, 16);
        p.len = (uint32_t) strtoul(f[2].c_str(), nullptr, 10);
        p.pat = (uint8_t) strtoul(f[3].c_str(), nullptr, 10);
        p.ts = strtoull(f[4].c_str(), nullptr, 16);
        p.ifid = (uint32_t) strtoul(f[5].c_str(), nullptr, 16);
        p.vid = (uint16_t) strtoul(f[6].c_str(), nullptr, 16);
        p.flags = (uint8_t) strtoul(f[7].c_str(), nullptr, 16);
        p.proto = atoi(f[8].c_str());
        if (f.size() > 10)
        {
            p.ver = (uint8_t) atoi(f[9].c_str());
            p.retag = atoi(f[10].c_str());
        }
        c.b.push_back(p);
    }
    return c;
}

// position-dependent content: a wrong source offset of any slice is visible
static Bytes pattern(uint32_t len, uint8_t pat)
{
    Bytes b(len);
    for (uint32_t i = 0; i < len; ++i)
        b[i] = (uint8_t) (i * 31u + (i >> 8) * 17u + pat * 101u + 7u);
    return b;
}

// ---------------------------------------------------------------------------------------------
// Typed prototypes, built with the library's own builders (the round trip must return what the
// getters reported before encoding).
constexpr int NPROTO = 25;
static Payload protoPayload(int idx)
{
    Bytes d = pattern(2000, (uint8_t) (idx + 3));
    switch (idx)
    {
        case 0: { CanPayload p; p.setId(0x123); p.setData(d.data(), 0); return p; }
        case 1: { CanPayload p; p.setId(0x7FF); p.setRtr(false); p.setData(d.data(), 1); p.setCrc(0x1234); return p; }
        case 2: { CanPayload p; p.setId(0x1ABCDEF0 & 0x1FFFFFFF); p.setIde(true); p.setData(d.data(), 8); return p; }
        case 3: { CanFdPayload p; p.setId(0x55); p.setData(d.data(), 12); p.setFlag(CanPayloadBase::Flags::brs, true); return p; }
        case 4: { CanFdPayload p; p.setId(0x1FFFFFFF); p.setIde(true); p.setData(d.data(), 64); p.setSbc(5); return p; }
        case 5: { LinPayload p; p.setLinId(0x21); p.setData(d.data(), 0); return p; }
        case 6: { LinPayload p; p.setLinId(0x3F); p.setParityBits(2); p.setChecksum(0xA5); p.setData(d.data(), 8); return p; }
        case 7: { AnalogPayload p; p.setSampleDt(AnalogPayload::SampleDt::aInt16); p.setUnit(AnalogPayload::Unit::volt); p.setSampleInterval(0.5f); p.setData(d.data(), 8); return p; }
        case 8: { AnalogPayload p; p.setSampleDt(AnalogPayload::SampleDt::aInt32); p.setSampleScalar(2.0f); p.setSampleOffset(-1.0f); p.setData(d.data(), 12); return p; }
        case 9: { EthernetPayload p; p.setData(d.data(), 0); return p; }
        case 10: { EthernetPayload p; p.setFlag(EthernetPayload::Flags::fcsSupport, true); p.setData(d.data(), 46); return p; }
        case 11: { EthernetPayload p; p.setData(d.data(), 1500); return p; }
        case 12: { CaptureModulePayload p; p.setUptime(0x0102030405060708ull); p.setData("dev", "sn1", "hw", "sw1", {}); return p; }
        case 13: { CaptureModulePayload p; p.setGmIdentity(0xA1A2A3A4A5A6A7A8ull); std::string l(300, 'x'); l[299] = 'y'; p.setData(l, "serial-0001", l.substr(0, 151), "v1.2.3", {1, 2, 3}); return p; }
        case 14: { InterfacePayload p; p.setInterfaceId(0x11223344); p.setMsgTotalRx(77); p.setData(nullptr, 0, nullptr, 0); return p; }
        case 15: { InterfacePayload p; p.setInterfaceId(5); p.setInterfaceStatus(InterfacePayload::InterfaceStatus::linkStatusUp); uint8_t s[3] = {1, 2, 3}; uint8_t v[5] = {9, 8, 7, 6, 5}; p.setData(s, 3, v, 5); return p; }
        // payload objects as their default constructors leave them (absent strings, no data): legal, well-formed payloads
        case 21: return CaptureModulePayload();
        case 22: return InterfacePayload();
        case 23: return CanFdPayload();
        case 24: return AnalogPayload();
        case 16: return Payload(PayloadType(CmpHeader::MessageType::data, 0xFE), d.data(), 10);
        case 17: return Payload(PayloadType(CmpHeader::MessageType::status, 0xFE), d.data(), 7);
        case 18: return Payload(PayloadType(CmpHeader::MessageType::control, 0x01), d.data(), 5);
        case 19: return Payload(PayloadType(CmpHeader::MessageType::vendor, 0x11), d.data(), 9);
        default: return Payload(PayloadType(static_cast<CmpHeader::MessageType>(0x07), 0x05), d.data(), 6);
    }
}

struct Built
{
    std::vector<Packet> packets;
    std::vector<PSpec> eff;        // effective spec (mt/pt/len resolved for prototypes)
    std::vector<Bytes> bytes;      // payload bytes as reported by the input packet's getters
};

static Built build(const CaseSpec& c)
{
    Built r;
    for (size_t i = 0; i < c.b.size(); ++i)
    {
        PSpec s = c.b[i];
        Packet p;
        p.setVersion(s.ver ? s.ver : c.ver);
        if (c.junk)
        {
            p.setDeviceId((uint16_t) (0xDEA0 + i));
            p.setStreamId((uint8_t) (0xB0 + i));
            p.setSequenceCounter((uint16_t) (0xC0DE + i));
        }
        p.setTimestamp(s.ts);
        p.setInterfaceId(s.ifid);
        p.setVendorId(s.vid);
        p.setCommonFlags(s.flags);
        // the packet's own segment-type attribute (a separate member, what a decoder-side object reports for a forwarded segment)
        // follows the segmentation bits of the flags; with junk it is set on every packet that carries no such bits as well
        if (s.flags & ref::FLAG_SEG_MASK)
            p.setSegmentType(static_cast<MessageHeader::SegmentType>((s.flags & ref::FLAG_SEG_MASK) >> 2));
        else if (c.junk == 2)
            p.setSegmentType(static_cast<MessageHeader::SegmentType>(1 + i % 3));
        if (s.proto >= 0)
        {
            Payload pl = protoPayload(s.proto);
            s.mt = (uint8_t) pl.getMessageType();
            s.pt = pl.getRawPayloadType();
            s.len = (uint32_t) pl.getLength();
            p.setPayload(pl);
        }
        else
        {
            Bytes d = pattern(s.len, s.pat);
            if (s.retag == 2)
            {
                // given to the packet with ANOTHER LENGTH (and other bytes), then replaced in place by assignment through getPayload()
                Bytes other = pattern(s.len / 2 + 3, (uint8_t) (s.pat ^ 0x3C));
                p.setPayload(Payload(PayloadType(static_cast<CmpHeader::MessageType>(s.mt), s.pt), other.data(), other.size()));
                p.getPayload() = Payload(PayloadType(static_cast<CmpHeader::MessageType>(s.mt), s.pt), d.data(), d.size());
            }
            else if (s.retag)
            {
                // given to the packet as a payload of another message type and payload type, then edited in place into the intended one
                p.setPayload(Payload(PayloadType(static_cast<CmpHeader::MessageType>(s.mt == 1 ? 3 : 1), (uint8_t) (s.pt ^ 0x55)), d.data(), d.size()));
                p.getPayload().setType(PayloadType(static_cast<CmpHeader::MessageType>(s.mt), s.pt));
            }
            else
                p.setPayload(Payload(PayloadType(static_cast<CmpHeader::MessageType>(s.mt), s.pt), d.data(), d.size()));
        }
        const Payload& pl = p.getPayload();
        r.bytes.emplace_back(pl.getRawPayload(), pl.getRawPayload() + pl.getLength());
        r.eff.push_back(s);
        r.packets.push_back(std::move(p));
    }
    return r;
}

static std::vector<Bytes> runEncode(Encoder& e, const CaseSpec& c, Built& b)
{
    DataContext ctx{c.mn, c.mx};
    if (c.api == 1 && b.packets.size() == 1)
        return e.encode(b.packets[0], ctx);
    if (c.api == 2)
    {
        std::vector<std::shared_ptr<Packet>> v;
        for (auto& p : b.packets)
            v.push_back(std::make_shared<Packet>(p));
        return e.encode(v.begin(), v.end(), ctx);
    }
    return e.encode(b.packets.begin(), b.packets.end(), ctx);
}

static uint64_t structureHash(const std::vector<Bytes>& frames)
{
    uint64_t h = 0x1234;
    for (auto& f : frames)
    {
        ref::Walked w = ref::walk(f);
        h = mc::mix(h, f.size());
        h = mc::mix(h, w.msgs.size());
        for (auto& m : w.msgs)
            h = mc::mix(h, (uint64_t) m.h.plen << 8 | m.h.seg());
    }
    return h;
}

// ---------------------------------------------------------------------------------------------
// C07 oracle
static void oracleC07(W& w, const CaseSpec& c, const Built& b, const std::vector<Bytes>& frames)
{
    if (c.b.empty())
    {
        if (!frames.empty())
            w.fail("empty-batch-produced-frames", fmt("an empty batch returned %zu frame(s)", frames.size()));
        return;
    }
    size_t pi = 0;       // current packet
    uint32_t po = 0;     // bytes of it already seen
    for (size_t fi = 0; fi < frames.size(); ++fi)
    {
        const Bytes& f = frames[fi];
        const char* pos = fi == 0 ? "first-frame-of-batch" : (fi + 1 == frames.size() ? "last-frame-of-batch" : "middle-frame");
        if (f.size() < c.mn)
            w.fail("frame-size-below-min", fmt("frame %zu has %zu bytes, minimum is %zu", fi, f.size(), c.mn));
        if (f.size() > c.mx)
            w.fail("frame-size-above-max", fmt("frame %zu has %zu bytes, maximum is %zu", fi, f.size(), c.mx));
        ref::Walked wk = ref::walk(f);
        if (!wk.hdrOk)
        {
            w.fail("frame-shorter-than-header", fmt("frame %zu has %zu bytes", fi, f.size()));
            continue;
        }
        if (wk.msgs.empty())
            w.fail(std::string("frame-without-message@") + pos, fmt("frame %zu of %zu (%zu bytes) carries no complete message", fi, frames.size(), f.size()));
        if (wk.tailTruncatedMsg)
            w.fail("messages-do-not-tile", fmt("frame %zu: a message header at offset %zu declares more payload than the frame holds", fi, wk.used));
        else if (!wk.tailZero)
            w.fail("padding-nonzero", fmt("frame %zu: bytes after offset %zu are not all zero", fi, wk.used));
        else if (f.size() != std::max(wk.used, c.mn))
            w.fail(f.size() > std::max(wk.used, c.mn) ? "padding-longer-than-needed" : "frame-shorter-than-needed", fmt("frame %zu: %zu bytes used, min %zu, but frame has %zu bytes", fi, wk.used, c.mn, f.size()));
        for (auto& m : wk.msgs)
        {
            if (pi >= b.eff.size())
            {
                w.fail("payload-bytes-extra", fmt("frame %zu carries a message beyond the last packet of the batch", fi));
                return;
            }
            const PSpec& s = b.eff[pi];
            if (m.h.plen == 0)
            {
                w.fail("zero-length-message", fmt("frame %zu carries a message with payload length 0 (packet %zu, offset %u)", fi, pi, po));
                continue;
            }
            if (po + m.h.plen > s.len)
            {
                w.fail("payload-bytes-extra", fmt("frame %zu: message of %u bytes overshoots packet %zu (len %u, already %u)", fi, m.h.plen, pi, s.len, po));
                return;
            }
            if (memcmp(&f[m.payOff], &b.bytes[pi][po], m.h.plen) != 0)
                w.fail(po == 0 ? "payload-bytes-mismatch@first-slice" : "payload-bytes-mismatch@later-slice",
                       fmt("frame %zu: message bytes differ from packet %zu payload[%u..%u)", fi, pi, po, po + m.h.plen));
            if (m.h.ts != s.ts)
                w.fail("message-header-mismatch:timestamp", fmt("frame %zu packet %zu: ts 0x%llx expected 0x%llx", fi, pi, (unsigned long long) m.h.ts, (unsigned long long) s.ts));
            if (m.h.ptype != s.pt)
                w.fail("message-header-mismatch:payload-type", fmt("frame %zu packet %zu: type 0x%x expected 0x%x", fi, pi, m.h.ptype, s.pt));
            if ((m.h.flags & ~ref::FLAG_SEG_MASK) != (s.flags & ~ref::FLAG_SEG_MASK))
                w.fail("message-header-mismatch:flags", fmt("frame %zu packet %zu: flags 0x%x expected 0x%x (segment bits masked)", fi, pi, m.h.flags, s.flags));
            if (s.mt == ref::MT_DATA && m.h.idword != s.ifid)
                w.fail("message-header-mismatch:interface-id", fmt("frame %zu packet %zu: id word 0x%x expected 0x%x", fi, pi, m.h.idword, s.ifid));
            if ((s.mt == ref::MT_STATUS || s.mt == ref::MT_VENDOR) && m.h.idword != s.vid)
                w.fail("message-header-mismatch:vendor-id", fmt("frame %zu packet %zu: id word 0x%x expected 0x0000%04x", fi, pi, m.h.idword, s.vid));
            po += m.h.plen;
            if (po == s.len)
            {
                ++pi;
                po = 0;
            }
        }
    }
    if (pi != b.eff.size())
        w.fail("payload-bytes-missing", fmt("frames end inside packet %zu at offset %u (batch has %zu packets)", pi, po, b.eff.size()));
}

// ---------------------------------------------------------------------------------------------
// C07 oracle for batches that contain packets with a ZERO-LENGTH payload: such a packet has no byte to deliver, so it owes the wire
// nothing; everything else of C07 stays as stated (every frame within the limits, at least one complete message, tiling, padding, the
// bytes of the other packets exactly once and in order). Keys carry their own prefix so that a finding here never hides one elsewhere.
static void oracleC07Zero(W& w, const CaseSpec& c, const Built& b, const std::vector<Bytes>& frames)
{
    const std::string z = "zero-length-payload:";
    size_t pi = 0;
    uint32_t po = 0;
    auto skipEmpty = [&] {
        while (po == 0 && pi < b.eff.size() && b.eff[pi].len == 0)
            ++pi;
    };
    for (size_t fi = 0; fi < frames.size(); ++fi)
    {
        const Bytes& f = frames[fi];
        if (f.size() < c.mn)
            w.fail(z + "frame-size-below-min", fmt("frame %zu has %zu bytes, minimum is %zu", fi, f.size(), c.mn));
        if (f.size() > c.mx)
            w.fail(z + "frame-size-above-max", fmt("frame %zu has %zu bytes, maximum is %zu", fi, f.size(), c.mx));
        ref::Walked wk = ref::walk(f);
        if (!wk.hdrOk)
        {
            w.fail(z + "frame-shorter-than-header", fmt("frame %zu has %zu bytes", fi, f.size()));
            continue;
        }
        if (wk.msgs.empty())
            w.fail(z + "frame-without-message", fmt("frame %zu of %zu (%zu bytes) carries no complete message", fi, frames.size(), f.size()));
        if (wk.tailTruncatedMsg)
            w.fail(z + "messages-do-not-tile", fmt("frame %zu: a message header at offset %zu declares more payload than the frame holds", fi, wk.used));
        else if (!wk.tailZero)
            w.fail(z + "padding-nonzero", fmt("frame %zu: bytes after offset %zu are not all zero", fi, wk.used));
        else if (f.size() != std::max(wk.used, c.mn))
            w.fail(z + "padding-length", fmt("frame %zu: %zu bytes used, min %zu, but frame has %zu bytes", fi, wk.used, c.mn, f.size()));
        for (auto& m : wk.msgs)
        {
            if (m.h.plen == 0)
                continue;   // a message of length 0 carries no payload byte: neither owed nor forbidden here
            skipEmpty();
            if (pi >= b.eff.size() || po + m.h.plen > b.eff[pi].len)
            {
                w.fail(z + "payload-bytes-extra", fmt("frame %zu carries %u bytes that no packet of the batch owes (packet %zu, offset %u)", fi, m.h.plen, pi, po));
                return;
            }
            const PSpec& s = b.eff[pi];
            if (memcmp(&f[m.payOff], &b.bytes[pi][po], m.h.plen) != 0)
                w.fail(z + "payload-bytes-mismatch", fmt("frame %zu: message bytes differ from packet %zu payload[%u..%u)", fi, pi, po, po + m.h.plen));
            if (m.h.ts != s.ts || m.h.ptype != s.pt || wk.fh.msgType != s.mt)
                w.fail(z + "message-header-mismatch", fmt("frame %zu packet %zu: timestamp, payload type or message type differ from the packet's", fi, pi));
            po += m.h.plen;
            if (po == s.len)
            {
                ++pi;
                po = 0;
            }
        }
    }
    skipEmpty();
    if (pi != b.eff.size())
        w.fail(z + "payload-bytes-missing", fmt("frames end inside packet %zu at offset %u (batch has %zu packets)", pi, po, b.eff.size()));
}

// ---------------------------------------------------------------------------------------------
// C08 oracle: parsed structure == plan
struct ParsedFrame
{
    uint8_t msgType;
    std::vector<ref::PlanMsg> msgs;
};

static bool parseStructure(const Built& b, const std::vector<Bytes>& frames, std::vector<ParsedFrame>& out, std::vector<size_t>* emptyFrames = nullptr)
{
    size_t pi = 0;
    uint32_t po = 0;
    for (size_t fidx = 0; fidx < frames.size(); ++fidx)
    {
        const Bytes& f = frames[fidx];
        ref::Walked wk = ref::walk(f);
        if (!wk.hdrOk)
            return false;
        if (wk.msgs.empty())
        {
            if (emptyFrames)
                emptyFrames->push_back(fidx);
            continue;
        }
        ParsedFrame pf;
        pf.msgType = wk.fh.msgType;
        for (auto& m : wk.msgs)
        {
            if (pi >= b.eff.size() || po + m.h.plen > b.eff[pi].len)
                return false;
            pf.msgs.push_back({(int) pi, po, m.h.plen, m.h.seg()});
            po += m.h.plen;
            if (po == b.eff[pi].len)
            {
                ++pi;
                po = 0;
            }
        }
        out.push_back(pf);
    }
    return pi == b.eff.size();
}

static void oracleC08(W& w, const CaseSpec& c, const Built& b, const std::vector<Bytes>& frames)
{
    if (c.b.empty())
        return;
    std::vector<ParsedFrame> got;
    std::vector<size_t> emptyFrames;
    if (!parseStructure(b, frames, got, &emptyFrames))
    {
        w.fail("structure-not-parsable", "the frames do not carry the batch's payload bytes as a sequence of slices (see C07)");
        return;
    }
    // A frame without any message between / around the others: the next packet was not appended to the (empty) current frame although
    // it fits it, or the segments of a packet are no longer in consecutive frames
    if (!emptyFrames.empty())
        w.fail("layout-differs-from-rules:frame-without-message",
               fmt("frame %zu of %zu carries no message: the message that follows was put into a new frame instead of this one", emptyFrames[0], frames.size()));
    std::vector<ref::PlanPacket> pb;
    for (auto& s : b.eff)
        pb.push_back({s.mt, s.len});
    auto plan = ref::planLayout(pb, c.mx);
    const size_t u = c.mx - 24;
    // rule-by-rule diagnosis first (more specific keys), generic equality last
    std::vector<int> slices(b.eff.size(), 0);
    for (size_t fi = 0; fi < got.size(); ++fi)
    {
        auto& f = got[fi];
        bool hasSeg = false;
        for (auto& m : f.msgs)
        {
            slices[m.packet]++;
            if (m.seg != ref::SEG_NONE)
                hasSeg = true;
            if (b.eff[m.packet].mt != f.msgType)
                w.fail("frame-type-differs-from-message-type",
                       fmt("frame %zu announces message type 0x%x but carries packet %d of type 0x%x", fi, f.msgType, m.packet, b.eff[m.packet].mt));
        }
        if (hasSeg && f.msgs.size() > 1)
            w.fail("segment-not-alone-in-frame", fmt("frame %zu carries a segment together with %zu other message(s)", fi, f.msgs.size() - 1));
    }
    for (size_t i = 0; i < b.eff.size(); ++i)
    {
        bool fits = 16 + (size_t) b.eff[i].len <= c.mx - 8;
        if (fits && slices[i] > 1)
            w.fail("split-although-fits", fmt("packet %zu (len %u) fits an empty frame of max %zu but was cut into %d pieces", i, b.eff[i].len, c.mx, slices[i]));
    }
    for (size_t fi = 0; fi < got.size(); ++fi)
        for (auto& m : got[fi].msgs)
        {
            bool fits = 16 + (size_t) b.eff[m.packet].len <= c.mx - 8;
            const uint32_t L = b.eff[m.packet].len;
            uint8_t want = fits ? ref::SEG_NONE : (m.off == 0 ? ref::SEG_FIRST : (m.off + m.len == L ? ref::SEG_LAST : ref::SEG_MID));
            if (m.seg != want)
                w.fail("segment-flag-wrong", fmt("packet %d slice [%u,%u) of %u is flagged %u, expected %u (0 none,1 first,2 mid,3 last)", m.packet, m.off,
                                                 m.off + m.len, L, m.seg, want));
            if (!fits && m.off + m.len != L && m.len != u)
                w.fail("segment-not-filling-frame", fmt("packet %d: non-last segment carries %u bytes, a full frame takes %zu", m.packet, m.len, u));
        }
    // equality with the plan
    bool same = got.size() == plan.size();
    for (size_t i = 0; same && i < got.size(); ++i)
        same = got[i].msgs == plan[i].msgs;
    if (!same)
    {
        std::string gs, ps;
        for (auto& f : got)
        {
            gs += "[";
            for (auto& m : f.msgs)
                gs += fmt("p%d:%u+%u/%u ", m.packet, m.off, m.len, m.seg);
            gs += "]";
        }
        for (auto& f : plan)
        {
            ps += "[";
            for (auto& m : f.msgs)
                ps += fmt("p%d:%u+%u/%u ", m.packet, m.off, m.len, m.seg);
            ps += "]";
        }
        // classify: more frames than planned with all-unsegmented => not appended; fewer => over-aggregation
        std::string key = "layout-differs-from-rules";
        if (got.size() > plan.size())
            key = "layout-differs-from-rules:more-frames-than-needed";
        else if (got.size() < plan.size())
            key = "layout-differs-from-rules:fewer-frames-than-required";
        w.fail(key, "observed " + gs.substr(0, 500) + " expected " + ps.substr(0, 500));
    }
}

// ---------------------------------------------------------------------------------------------
// C01 oracle: decode the frames in order on a fresh real decoder
static void oracleC01(W& w, const CaseSpec& c, const Built& b, const std::vector<Bytes>& frames)
{
    if (c.b.empty())
        return;
    std::vector<obs::PObs> got;
    {
        Decoder d;
        for (auto& f : frames)
        {
            // the frame is handed over flush against the end of its own heap block, at an address whose alignment varies with the
            // frame size (size % 8: 8-byte aligned only now and then, as a frame behind a 14-byte Ethernet header is)
            const size_t off = f.size() % 8;
            uint8_t* block = static_cast<uint8_t*>(malloc(f.size() + off ? f.size() + off : 1));
            uint8_t* copy = block + off;
            memcpy(copy, f.data(), f.size());
            auto pk = d.decode(copy, f.size());
            free(block);
            for (auto& p : pk)
            {
                if (!p)
                {
                    w.fail("decoder-returned-null", "null packet pointer");
                    continue;
                }
                got.push_back(obs::observe(*p));
            }
        }
    }
    if (got.size() != b.eff.size())
    {
        w.fail(got.size() < b.eff.size() ? "round-trip-lost-packets" : "round-trip-extra-packets",
               fmt("%zu packets encoded into %zu frames, %zu decoded", b.eff.size(), frames.size(), got.size()));
    }
    for (size_t i = 0; i < std::min(got.size(), b.eff.size()); ++i)
    {
        const PSpec& s = b.eff[i];
        const obs::PObs& o = got[i];
        auto bad = [&](const char* field, const std::string& d) { w.fail(std::string("round-trip-field:") + field, fmt("packet %zu: ", i) + d + " decoded " + obs::show(o)); };
        if (o.ptype != s.pt)
            bad("payload-type", fmt("payload type 0x%x expected 0x%x;", o.ptype, s.pt));
        if (o.msgType != s.mt)
            bad("message-type", fmt("message type 0x%x expected 0x%x;", o.msgType, s.mt));
        if (o.bytes != b.bytes[i])
        {
            size_t k = 0;
            while (k < o.bytes.size() && k < b.bytes[i].size() && o.bytes[k] == b.bytes[i][k])
                ++k;
            bad(o.bytes.size() != b.bytes[i].size() ? "payload-length" : "payload-bytes",
                fmt("payload differs at offset %zu (decoded %zu bytes, sent %zu);", k, o.bytes.size(), b.bytes[i].size()));
        }
        if (o.ts != s.ts)
            bad("timestamp", fmt("timestamp expected 0x%llx;", (unsigned long long) s.ts));
        if (s.mt == ref::MT_DATA && o.ifid != s.ifid)
            bad("interface-id", fmt("interface id expected 0x%x;", s.ifid));
        if ((s.mt == ref::MT_STATUS || s.mt == ref::MT_VENDOR) && o.vid != s.vid)
            bad("vendor-id", fmt("vendor id expected 0x%x;", s.vid));
        if (o.version != c.ver)
            bad("version", fmt("version expected %u;", c.ver));
        if ((o.flags & ~ref::FLAG_SEG_MASK) != (s.flags & ~ref::FLAG_SEG_MASK))
            bad("flags", fmt("flags expected 0x%x (segment bits masked);", s.flags));
        if (o.dev != c.dev)
            bad("device-id", fmt("device id expected 0x%x;", c.dev));
        if (o.stream != c.str)
            bad("stream-id", fmt("stream id expected 0x%x;", c.str));
        if (s.proto >= 0 && s.proto < 16 && !o.valid)
            bad("validity", "a well-formed typed payload decoded as invalid;");
    }
}

// An input range whose element access fails at a given position: the environment answer "the caller's packet source threw" (or an
// allocation failed) in the middle of an encode call. The aborted call returns nothing; the encoder must be usable afterwards.
struct ThrowingIt
{
    using iterator_category = std::forward_iterator_tag;
    using value_type = Packet;
    using difference_type = std::ptrdiff_t;
    using pointer = const Packet*;
    using reference = const Packet&;
    const Packet* base = nullptr;
    size_t i = 0, throwAt = 0;
    reference operator*() const
    {
        if (i == throwAt)
            throw std::runtime_error("packet source failed");
        return base[i];
    }
    pointer operator->() const { return &**this; }
    ThrowingIt& operator++() { ++i; return *this; }
    ThrowingIt operator++(int) { ThrowingIt t = *this; ++i; return t; }
    bool operator==(const ThrowingIt& o) const { return i == o.i; }
    bool operator!=(const ThrowingIt& o) const { return i != o.i; }
};

static void judge(W& w, const std::string& prop, const CaseSpec& c)
{
    Built b = build(c);
    Encoder e;
    e.setDeviceId(c.dev);
    e.setStreamId(c.str);
    if (c.pre == 10)
    {
        // an earlier call with an empty batch and the same context
        std::vector<Packet> none;
        e.encode(none.begin(), none.end(), DataContext{c.mn, c.mx});
        w.add(mc::C_TRANS, 1);
    }
    else if (c.pre >= 8)
    {
        // an earlier call with the same context that was ABORTED by an exception from the caller's packet source, after one small
        // packet (kind 8) or after a segmented and a small packet (kind 9) had been put into frames: nothing of it may show up later
        CaseSpec p0 = c;
        p0.pre = 0;
        p0.api = 0;
        PSpec a, b2;
        a.mt = 1; a.len = c.pre == 9 ? (uint32_t) (2 * (c.mx - 24) + 1) : 3; a.pat = 98;
        b2.mt = 1; b2.len = 2; b2.pat = 97;
        p0.b = {a, b2};
        Built pb = build(p0);
        const size_t at = c.pre == 9 ? 2 : 1;
        ThrowingIt first{pb.packets.data(), 0, at}, last{pb.packets.data(), pb.packets.size() + 1, at};
        try
        {
            e.encode(first, last, DataContext{p0.mn, p0.mx});
            w.fail("aborted-call:no-exception", "the packet source threw, encode() returned normally");
        }
        catch (const std::runtime_error&)
        {
        }
        w.add(mc::C_TRANS, 1);
    }
    else if (c.pre)
    {
        // an earlier call with the same context on the same encoder: what it leaves behind must not matter
        CaseSpec p0 = c;
        p0.pre = 0;
        p0.api = 0;
        if (c.pre <= 3)
            p0.ver = (uint8_t) (c.ver == 255 ? 1 : c.ver + 1);
        if (c.pre == 4)
            p0.mx = c.mx + 40;   // larger frames before, same version and type
        if (c.pre == 5)
        {
            p0.mx = 25;          // smaller frames before
            p0.mn = std::min<size_t>(p0.mn, 25);
        }
        if (c.pre == 7)
        {
            p0.mn = 4 * c.mx;    // an earlier call whose MINIMUM exceeds this call's maximum (every limit of the earlier context is
            p0.mx = 4 * c.mx + 100;   // larger than every limit of this one)
        }
        PSpec ps;
        ps.mt = c.pre == 2 ? 3 : 1;
        ps.len = c.pre == 3 ? (uint32_t) (2 * (c.mx - 24) + 1) : 3;
        ps.pat = 99;
        p0.b = {ps};
        Built pb = build(p0);
        runEncode(e, p0, pb);
        w.add(mc::C_TRANS, 1);
    }
    std::vector<Bytes> frames = runEncode(e, c, b);
    w.add(mc::C_TRANS, 1);
    w.add(mc::C_TRACES, 1);
    w.add(mc::C_STATES, frames.size() + 1);
    w.outcome(mc::mix(structureHash(frames), c.b.size()));
    bool hasZero = false;
    for (auto& ps : b.eff)
        hasZero = hasZero || ps.len == 0;
    if (prop == "C07" && hasZero)
        oracleC07Zero(w, c, b, frames);
    else if (prop == "C07")
        oracleC07(w, c, b, frames);
    else if (prop == "C08")
        oracleC08(w, c, b, frames);
    else
        oracleC01(w, c, b, frames);
}

// ---------------------------------------------------------------------------------------------
// Enumerations for C01/C07/C08
static std::vector<uint32_t> boundaryLengths(size_t mx)
{
    const long u = (long) mx - 24;
    std::vector<long> raw = {1, 2, u - 1, u, u + 1, 2 * u - 1, 2 * u, 2 * u + 1, 3 * u + 1};
    std::vector<uint32_t> out;
    for (long v : raw)
        if (v >= 1 && v <= 65535 && std::find(out.begin(), out.end(), (uint32_t) v) == out.end())
            out.push_back((uint32_t) v);
    std::sort(out.begin(), out.end());
    return out;
}

struct Task
{
    char part;   // 'A' boundary, 'L' all lengths (thorough), 'B' typed, 'C' header fields, 'D' extremes, 'E' empty batch / single sweep
    size_t mn, mx;
    int n;                       // batch size
    int first;                   // index of the first packet's choice
    int aux = 0;
};

struct Domain
{
    std::vector<Task> tasks;
    std::vector<uint8_t> types;       // message types for generic packets
    bool thorough;
};

static PSpec gen(uint8_t mt, uint32_t len, int idx)
{
    PSpec p;
    p.mt = mt;
    p.pt = 0xFE;
    p.len = len;
    p.pat = (uint8_t) (idx * 7 + 1);
    p.ts = 0x1000 + idx;
    p.ifid = 0xA0B0C000u + idx;
    p.vid = (uint16_t) (0x5500 + idx);
    p.flags = 0;
    return p;
}

static void fillLong(CaseSpec& c)
{
    const size_t n = 70000;
    PSpec p0 = gen(1, 1, 0);
    c.b.assign(n, p0);
    for (size_t i = 0; i < n; ++i)
    {
        c.b[i].ts = 0x100000 + i;
        c.b[i].pat = (uint8_t) i;
        if (c.longKind == 201 && i % 1000 == 999)
            c.b[i].mt = 3;   // a type change now and then
    }
}

static Domain makeDomain(const std::string& prop, bool thorough)
{
    Domain d;
    d.thorough = thorough;
    d.types = thorough ? std::vector<uint8_t>{1, 3, 2} : std::vector<uint8_t>{1, 3};
    // C07 / C08 quantify over ALL batches: message type 0 ("undefined", equal to the encoder's own initial value, so that no
    // type change opens the first frame) is a batch member there; C01's domain names non-zero message types only
    if (prop != "C01")
        d.types.push_back(0);
    std::vector<size_t> maxes = {25, 26, 27, 31, 32, 33, 40};
    if (thorough)
    {
        maxes.clear();
        for (size_t m = 25; m <= 48; ++m)
            maxes.push_back(m);
    }
    for (size_t mx : maxes)
    {
        std::vector<size_t> mins = {0, 25, mx};
        if (prop == "C07")
        {
            mins.push_back(1);
            mins.push_back(24);
            mins.push_back(mx - 1);
        }
        std::sort(mins.begin(), mins.end());
        mins.erase(std::unique(mins.begin(), mins.end()), mins.end());
        auto L = boundaryLengths(mx);
        int choices = (int) (L.size() * d.types.size());
        for (size_t mn : mins)
        {
            if (mn > mx)
                continue;
            int maxn = thorough ? 4 : 3;
            for (int n = 1; n <= maxn; ++n)
                for (int f = 0; f < choices; ++f)
                    d.tasks.push_back({'A', mn, mx, n, f});
            if (thorough)
            {
                // every length 1..3u+2, batch size 1..2, three types
                int all = (int) ((3 * (mx - 24) + 2) * 3);
                for (int n = 1; n <= 2; ++n)
                    for (int f = 0; f < all; ++f)
                        d.tasks.push_back({'L', mn, mx, n, f});
            }
        }
    }
    // mid-size and realistic frame sizes (8-bit / 16-bit truncation of slice sizes shows only here): batch sizes 1..2
    {
        std::vector<size_t> big = thorough ? std::vector<size_t>{279, 280, 281, 535, 536, 1499, 1500, 1501, 9000} : std::vector<size_t>{280, 536, 1500};
        for (size_t mx : big)
            for (size_t mn : {(size_t) 0, (size_t) 64, mx})
            {
                int choices = (int) (boundaryLengths(mx).size() * d.types.size());
                for (int n = 1; n <= 2; ++n)
                    for (int f = 0; f < choices; ++f)
                        d.tasks.push_back({'A', mn, mx, n, f});
            }
    }
    // typed prototypes
    const size_t ctxs[5][2] = {{0, 40}, {0, 64}, {64, 100}, {0, 1500}, {64, 1500}};
    for (auto& cx : ctxs)
        for (int n = 1; n <= 3; ++n)
            for (int f = 0; f < (n == 3 ? 8 : NPROTO); ++f)
                d.tasks.push_back({'B', cx[0], cx[1], n, f});
    // header fields
    for (int shape = 0; shape < 3; ++shape)
        d.tasks.push_back({'C', 0, 0, 0, shape});
    // extremes
    for (int k = 0; k < (thorough ? 12 : 8); ++k)
        d.tasks.push_back({'D', 0, 0, 0, k});
    if (prop != "C07")   // C07's domain ends at max = 65535 + 24
        for (int k = 100; k < 104; ++k)
            d.tasks.push_back({'D', 0, 0, 0, k});
    // very long batches (70000 packets in one call: one per frame, so that the frame counter wraps inside the call, and ~90 per frame) and
    // batches whose neighbours are IDENTICAL packets (same timestamp, ids, bytes: still one message each)
    for (int k = 200; k < 206; ++k)
        d.tasks.push_back({'D', 0, 0, 0, k});
    // single sweep over every length (thorough), empty batch
    if (thorough)
        for (int k = 0; k < 32; ++k)
            d.tasks.push_back({'S', 0, 0, 0, k});
    if (prop == "C07")
        d.tasks.push_back({'E', 0, 0, 0, 0});
    if (prop == "C07")
        for (int f = 0; f < 5; ++f)
            d.tasks.push_back({'Z', 0, 0, 0, f});
    return d;
}

static const int subset8[8] = {2, 4, 6, 8, 10, 13, 15, 17};

static void runTask(W& w, const std::string& prop, const Domain& d, const Task& t)
{
    CaseSpec c;
    auto exec = [&]() {
        auto desc = [&] { return show(c); };
        if (!w.begin_case(desc))
            return;
        judge(w, prop, c);
    };
    if (t.part == 'A' || t.part == 'L')
    {
        c.mn = t.mn;
        c.mx = t.mx;
        std::vector<uint32_t> L;
        if (t.part == 'A')
            L = boundaryLengths(t.mx);
        else
            for (uint32_t l = 1; l <= 3 * (t.mx - 24) + 2; ++l)
                L.push_back(l);
        std::vector<uint8_t> types = t.part == 'L' ? std::vector<uint8_t>{1, 3, 2} : d.types;
        if (t.part == 'A' && (t.n == 4 || (t.n == 3 && !d.thorough)))
            types = {1, 3};
        int choices = (int) (L.size() * types.size());
        if (t.first >= choices)
            return;
        std::vector<int> idx(t.n, 0);
        idx[0] = t.first;
        while (true)
        {
            c.b.clear();
            for (int i = 0; i < t.n; ++i)
                c.b.push_back(gen(types[idx[i] % types.size()], L[idx[i] / types.size()], i));
            exec();
            if (t.part == 'A' && (t.n <= 2 || d.thorough) && t.n <= 3)
            {
                for (c.pre = 1; c.pre <= 10; ++c.pre)
                    exec();
                c.pre = 0;
            }
            int k = t.n - 1;
            while (k >= 1 && ++idx[k] == choices)
                idx[k--] = 0;
            if (k < 1)
                break;
        }
    }
    else if (t.part == 'B')
    {
        c.mn = t.mn;
        c.mx = t.mx;
        int nchoice = t.n == 3 ? 8 : NPROTO;
        std::vector<int> idx(t.n, 0);
        idx[0] = t.first;
        while (true)
        {
            for (int api = 0; api < 3; ++api)
            {
                if (api == 1 && t.n != 1)
                    continue;
                if (api == 2 && t.n == 3)
                    continue;
                c.api = api;
                c.b.clear();
                for (int i = 0; i < t.n; ++i)
                {
                    PSpec p = gen(1, 1, i);
                    p.proto = t.n == 3 ? subset8[idx[i]] : idx[i];
                    c.b.push_back(p);
                }
                exec();
            }
            c.api = 0;
            int k = t.n - 1;
            while (k >= 1 && ++idx[k] == nchoice)
                idx[k--] = 0;
            if (k < 1)
                break;
        }
    }
    else if (t.part == 'C')
    {
        // three batch shapes: aggregated, segmented, mixed types
        auto shape = [&](int s) {
            c = CaseSpec();
            c.junk = 1;
            if (s == 0)
            {
                c.mn = 0; c.mx = 100;
                c.b = {gen(1, 5, 0), gen(1, 9, 1), gen(1, 3, 2)};
            }
            else if (s == 1)
            {
                c.mn = 64; c.mx = 40;
                c.mn = 30;
                c.b = {gen(1, 50, 0), gen(3, 33, 1)};
            }
            else
            {
                c.mn = 0; c.mx = 64;
                c.b = {gen(1, 5, 0), gen(3, 6, 1), gen(0xFF, 7, 2), gen(2, 8, 3), gen(1, 45, 4), gen(3, 2, 5)};
                if (prop != "C01")   // payload type byte 0 is outside C01's domain (not decodable), inside that of the frame-level properties
                    c.b[1].pt = c.b[4].pt = 0;
            }
        };
        const uint64_t tss[] = {0, 0x0102030405060708ull, ~0ull};
        const uint32_t ifs[] = {0, 0x01020304u, 0xFFFFFFFFu};
        const uint16_t vids[] = {0, 0x0102, 0xFFFF};
        const uint8_t flags[] = {0x01, 0x02, 0x10, 0x20, 0x80, 0x0C, 0xBF, 0x04, 0x08};
        const uint8_t vers[] = {1, 2, 255};
        const uint16_t devs[] = {0, 0x0102, 0xFFFF};
        const uint8_t strs[] = {0, 1, 255};
        for (auto v : tss) { shape(t.first); for (auto& p : c.b) p.ts = v; exec(); }
        for (auto v : ifs) { shape(t.first); for (auto& p : c.b) p.ifid = v; exec(); }
        for (auto v : vids) { shape(t.first); for (auto& p : c.b) p.vid = v; exec(); }
        for (auto v : flags) { shape(t.first); for (auto& p : c.b) p.flags = v; exec(); }
        for (auto v : flags) { shape(t.first); c.b[0].flags = v; exec(); }
        // segmentation bits in the common flags of ONE input packet at every position of the batch (a packet that was reassembled
        // by a decoder, or forwarded segment by segment, keeps them): they say nothing about how THIS encoder lays the packet out
        for (uint8_t v : {(uint8_t) 0x04, (uint8_t) 0x08, (uint8_t) 0x0C, (uint8_t) 0x2D})
            for (size_t i = 1; ; ++i)
            {
                shape(t.first);
                if (i >= c.b.size())
                    break;
                c.b[i].flags = v;
                exec();
                if (i + 1 < c.b.size())
                {
                    c.b[i - 1].flags = 0x04;   // ... and a "first segment" before it
                    exec();
                }
            }
        for (auto v : vers) { shape(t.first); c.ver = v; exec(); }
        // payloads re-typed in place after they were given to the packet: one packet at every position, and all of them
        for (size_t i = 0; ; ++i)
        {
            shape(t.first);
            if (i > c.b.size())
                break;
            for (size_t q = 0; q < c.b.size(); ++q)
                if (i == c.b.size() || q == i)
                    c.b[q].retag = 1;
            exec();
            for (size_t q = 0; q < c.b.size(); ++q)
                if (c.b[q].retag)
                    c.b[q].retag = 2;   // ... and payloads whose LENGTH changed in place after they were given to the packet
            exec();
        }
        // packets of one batch with protocol versions of their own (frame-level properties only: what version a frame announces for
        // such a batch is not fixed by any property): alternating, and changing exactly where the message type changes
        if (prop != "C01")
            for (int mode = 0; mode < 3; ++mode)
            {
                shape(t.first);
                for (size_t q = 0; q < c.b.size(); ++q)
                    c.b[q].ver = mode == 0 ? (uint8_t) (1 + q % 2) : (mode == 1 ? (uint8_t) (c.b[q].mt == 1 ? 1 : 2) : (uint8_t) (q == 0 ? 1 : 2));
                exec();
            }
        for (auto v : devs) { shape(t.first); c.dev = v; exec(); }
        for (auto v : strs) { shape(t.first); c.str = v; exec(); }
        for (int jk = 0; jk < 3; ++jk) { shape(t.first); c.junk = jk; exec(); }   // 2: also the segment-type attribute of every packet is set
    }
    else if (t.part == 'D')
    {
        const uint32_t lens[] = {65535, 65534, 40000};
        const size_t ctx[4][2] = {{0, 1500}, {0, 65559}, {0, 65558}, {25, 25}};
        int k = t.first;
        if (k < 4)
        {
            for (uint32_t l : lens)
            {
                c = CaseSpec();
                c.mn = ctx[k][0]; c.mx = ctx[k][1];
                c.b = {gen(1, l, 0)};
                exec();
            }
        }
        else if (k < 8)
        {
            for (uint32_t l : lens)
            {
                if (k - 4 == 3 && l != 65535)
                    continue;
                c = CaseSpec();
                c.mn = ctx[k - 4][0]; c.mx = ctx[k - 4][1];
                c.b = {gen(1, 1, 0), gen(3, l, 1), gen(3, 1, 2)};
                exec();
                // the same with NO type change in front of the large packet (it then meets a frame that already holds a message
                // of its own type), at the lengths around 65535 - 16 where header + payload crosses 16 bits
                for (uint32_t l2 : {l, (uint32_t) 65520, (uint32_t) 65519})
                {
                    c.b = {gen(1, 1, 0), gen(1, l2, 1), gen(1, 1, 2)};
                    exec();
                    if (l2 == l && l != 65535)
                        break;
                }
            }
        }
        else if (k >= 200)
        {
            c = CaseSpec();
            if (k < 203)
            {
                c.mn = k == 202 ? 64 : 0;
                c.mx = k == 200 ? 25 : 1500;
                c.longKind = k;
                fillLong(c);
                exec();
            }
            else
            {
                // identical neighbours: the same packet twice, three times, and twice with another one in between
                c.mn = k == 205 ? 64 : 0; c.mx = k == 203 ? 40 : 100;
                PSpec a = gen(1, 5, 0), b = gen(1, 6, 1), z = gen(3, 5, 2);
                for (auto batch : std::vector<std::vector<PSpec>>{{a, a}, {a, a, a}, {a, b, a}, {b, a, a}, {z, z}, {a, z, z, a}, {a, a, z, z}})
                {
                    c.b = batch;
                    exec();
                    for (auto& p : c.b)
                        p.len = 40;   // ... segmented ones
                    exec();
                }
            }
        }
        else if (k >= 100)
        {
            // frames larger than the largest message (a 16-bit slice size must not be taken from the room left in such a frame)
            const size_t mxs[] = {65560, 70000, 131096, 200000};
            for (size_t mn : {(size_t) 0, (size_t) 64})
                for (int order = 0; order < 2; ++order)
                    for (uint32_t l : {(uint32_t) 60000, (uint32_t) 65535, (uint32_t) 4441})
                    {
                        c = CaseSpec();
                        c.mn = mn; c.mx = mxs[k - 100];
                        if (order == 0)
                            c.b = {gen(1, l, 0), gen(1, 7, 1)};
                        else
                            c.b = {gen(1, 7, 0), gen(1, l, 1), gen(1, 65535, 2)};
                        exec();
                    }
        }
        else
        {
            // thorough only: status/vendor extremes and exact-fit neighbours
            const size_t mxs[] = {65557, 65559, 65560, 32792};
            c = CaseSpec();
            c.mn = 0; c.mx = mxs[k - 8];
            for (uint8_t mt : {(uint8_t) 1, (uint8_t) 3, (uint8_t) 0xFF})
            {
                c.b = {gen(mt, 65535, 0), gen(mt, 65533, 1)};
                exec();
            }
        }
    }
    else if (t.part == 'S')
    {
        // every single length 1..65535 at max in {64, 1500}, striped over 32 tasks
        for (size_t mx : {(size_t) 64, (size_t) 1500})
            for (uint32_t l = 1 + t.first; l <= 65535; l += 32)
            {
                c = CaseSpec();
                c.mn = 0; c.mx = mx;
                c.b = {gen(1, l, 0)};
                exec();
            }
    }
    else if (t.part == 'Z')
    {
        // batches of 1..3 packets over {zero-length data, zero-length status, small data, small status, segmenting data} with at least
        // one zero-length payload, first packet = t.first
        const size_t cx[4][2] = {{0, 1500}, {64, 1500}, {0, 64}, {64, 64}};
        for (auto& x : cx)
            for (int n = 1; n <= 3; ++n)
            {
                int total = 1;
                for (int i = 1; i < n; ++i)
                    total *= 5;
                for (int rest = 0; rest < total; ++rest)
                {
                    int sym[3] = {t.first, rest % 5, (rest / 5) % 5};
                    bool z = false;
                    c = CaseSpec();
                    c.mn = x[0]; c.mx = x[1];
                    for (int i = 0; i < n; ++i)
                    {
                        const int k = sym[i];
                        z = z || k < 2;
                        const uint32_t len = k < 2 ? 0 : (k < 4 ? 5 : (uint32_t) (2 * (c.mx - 24) + 1));
                        c.b.push_back(gen(k == 1 || k == 3 ? 3 : 1, len, i));
                    }
                    if (!z)
                        continue;
                    for (int api : {0, 2, 1})
                    {
                        if (api == 1 && n != 1)
                            continue;
                        c.api = api;
                        exec();
                    }
                }
            }
    }
    else if (t.part == 'E')
    {
        for (size_t mx : {(size_t) 25, (size_t) 100, (size_t) 1500})
            for (size_t mn : {(size_t) 0, (size_t) 25})
            {
                c = CaseSpec();
                c.mn = mn; c.mx = mx;
                exec();
            }
    }
}

// ---------------------------------------------------------------------------------------------
// C09 / C10: history trees
struct EncOp
{
    char kind;     // 'D' setDeviceId, 'S' setStreamId, 'R' restart, 'E' encode
    int arg;
};
// E10 / E11 differ from E0 / E4 in the protocol version ONLY (same context, type and batch shape), so that
// anything cached under a key that forgets the version collides
static const std::vector<EncOp> kOps = {{'D', 1}, {'D', 0x0203}, {'S', 1}, {'S', 7}, {'R', 0}, {'E', 0}, {'E', 1}, {'E', 2}, {'E', 3}, {'E', 4}, {'E', 5}, {'E', 10}, {'E', 11}, {'E', 12}, {'E', 13}, {'G', 0}};

// the (batch, context) pairs; 0..5 are the C09 alphabet, 6..9 additional finals of C10
static CaseSpec encodeArg(int k)
{
    CaseSpec c;
    switch (k)
    {
        case 0: c.mn = 0; c.mx = 1500; c.b = {gen(1, 6, 0)}; break;
        case 1: c.mn = 64; c.mx = 100; c.b = {gen(1, 5, 0), gen(1, 9, 1), gen(1, 30, 2)}; c.api = 2; break;   // through the overload for ranges of shared_ptr<Packet>
        case 2: c.mn = 0; c.mx = 40; c.b = {gen(1, 40, 0)}; c.api = 1; break;           // multi-frame, batch ends in a segment; through the single-packet overload
        case 3:   // type changes; the status packet that opens the second run has payload type BYTE 0 (raw type 0x0300: a message
                  // type without a payload kind - the frame header must announce 3 all the same)
            c.mn = 0; c.mx = 1500; c.b = {gen(1, 4, 0), gen(3, 5, 1), gen(1, 6, 2)};
            c.b[1].pt = 0;
            // the two data packets carry the segmentation bits of a first / last segment in their own flags (as reassembled or
            // forwarded packets do): frame headers and counters are the same as without them
            c.b[0].flags = 0x04;
            c.b[2].flags = 0x0C;
            break;
        case 4: c.mn = 0; c.mx = 64; c.ver = 2; c.b = {gen(3, 11, 0)}; break;
        case 5: c.mn = 64; c.mx = 100; c.b = {gen(1, 150, 0), gen(3, 7, 1)}; break;     // a type change directly behind the last segment of a segmented packet
        case 6: c.mn = 0; c.mx = 40; c.b = {gen(1, 33, 0), gen(1, 3, 1), gen(1, 4, 2)}; break;   // starts with a segmenting packet
        case 7: c.mn = 0; c.mx = 100; c.b = {gen(3, 8, 0), gen(3, 9, 1)}; break;                  // status only
        case 8: c.mn = 0; c.mx = 100; c.b = {gen(1, 8, 0), gen(1, 9, 1)}; break;                  // data only
        // long histories (not in the tree alphabet; C10's wrap round): one call that emits 65530 / 65533 / 32765 frames, so that the
        // next batch straddles the 65535 -> 0 wrap (resp. the 0x7FFF -> 0x8000 sign boundary) of the 16-bit frame counter
        case 0x20: c.mn = 0; c.mx = 25; c.b = {gen(1, 65530, 0)}; break;
        case 0x21: c.mn = 0; c.mx = 25; c.b = {gen(1, 65533, 0)}; break;
        case 0x22: c.mn = 0; c.mx = 25; c.b = {gen(1, 32765, 0)}; break;
        case 0x30: c.mn = 0; c.mx = 100; c.b = {}; break;   // the empty batch (returns no frames; not in the tree alphabet: dedicated histories of C10)
        case 0x31: c.mn = 64; c.mx = 64; c.b = {}; break;  // the empty batch with a minimum size
        case 13: c.mn = 0; c.mx = 100; c.b = {gen(0, 5, 0), gen(0, 6, 1)}; break;   // message type 0 ("undefined"): no type change opens the first frame
        case 12: c.mn = 0; c.mx = 1500; c.b = {gen(1, 16, 0), gen(3, 0, 1), gen(1, 3000, 2)}; c.b[2].flags = 0x08; break;   // ... the packet behind it needs three frames   // a zero-length payload between two type changes (emits no message)
        case 10: c.mn = 0; c.mx = 1500; c.ver = 2; c.b = {gen(1, 6, 0)}; break;       // E0 with another version
        case 11: c.mn = 0; c.mx = 64; c.ver = 1; c.b = {gen(3, 11, 0)}; c.api = 1; break;   // E4 with another version, through the single-packet overload
        default: c.mn = 30; c.mx = 48; c.b = {gen(0xFF, 25, 0), gen(1, 24, 1), gen(1, 2, 2)}; c.b[0].pt = 0; break;   // segmented vendor packet of raw type 0xFF00 first
    }
    c.junk = 1;   // the packets carry their own non-zero device / stream ids and counters: the encoder's configuration must win, also when it is 0
    return c;
}

struct HistState
{
    bool faultFired = false;   // op 'A': the call really made that many allocations
    Encoder enc;
    ref::CounterModel cm;
    uint16_t dev = 0;
    uint8_t str = 0;
};

static std::string opName(const EncOp& o)
{
    return o.kind == 'R' ? std::string("R") : fmt("%c%x", o.kind, o.arg);
}

// applies one op on the real encoder; for 'E' judges the frames by the C09 oracle if `judge09`
static std::vector<Bytes> applyOp(W& w, HistState& s, const EncOp& o, bool judge09)
{
    std::vector<Bytes> frames;
    switch (o.kind)
    {
        case 'D': s.enc.setDeviceId((uint16_t) o.arg); s.dev = (uint16_t) o.arg; s.cm.reset(); break;
        case 'S': s.enc.setStreamId((uint8_t) o.arg); s.str = (uint8_t) o.arg; s.cm.reset(); break;
        case 'R': s.enc.restart(); s.cm.reset(); break;
        case 'G':
        {
            // observation as an operation: the getters between two other operations (what they report is judged when a frame was
            // emitted since the last reset; whatever they remember must not change what follows)
            uint16_t c = s.enc.getSequenceCounter();
            if (judge09 && s.cm.any && c != s.cm.last)
                w.fail("reported-counter-differs-from-last-frame", fmt("getSequenceCounter()=%u, last emitted frame carries %u", c, s.cm.last));
            if (judge09 && (s.enc.getDeviceId() != s.dev || s.enc.getStreamId() != s.str))
                w.fail("reported-identity-differs", fmt("getDeviceId/getStreamId = 0x%x/0x%x, configured 0x%x/0x%x", s.enc.getDeviceId(), s.enc.getStreamId(), s.dev, s.str));
            break;
        }
        case 'X':
        {
            // encode(E<arg>) aborted by an exception from the packet source after the first packet (C10's fault round only: frames
            // of an aborted call are never seen, so C09's counter model does not apply)
            CaseSpec c = encodeArg(o.arg);
            Built b = build(c);
            ThrowingIt first{b.packets.data(), 0, 1}, last{b.packets.data(), b.packets.size() + 1, 1};
            try
            {
                s.enc.encode(first, last, DataContext{c.mn, c.mx});
                w.fail("aborted-call:no-exception", "the packet source threw, encode() returned normally");
            }
            catch (const std::runtime_error&)
            {
            }
            break;
        }
        case 'A':
        {
            // encode(E<arg & 0xFF>) in which allocation number (arg >> 8) fails: the call ends with std::bad_alloc
            CaseSpec c = encodeArg(o.arg & 0xFF);
            Built b = build(c);
            DataContext ctx{c.mn, c.mx};
            bool thrown = false;
            mc::af::arm(o.arg >> 8);
            try
            {
                auto fr = s.enc.encode(b.packets.begin(), b.packets.end(), ctx);
                mc::af::disarm();
            }
            catch (const std::bad_alloc&)
            {
                thrown = true;
            }
            s.faultFired = mc::af::disarm();
            if (s.faultFired && !thrown)
                w.fail("aborted-call:allocation-failure-swallowed", "an allocation inside encode() failed, the call returned normally");
            break;
        }
        case 'E':
        {
            CaseSpec c = encodeArg(o.arg);
            Built b = build(c);
            frames = runEncode(s.enc, c, b);
            if (!judge09)
                break;
            // map messages to packets for the message-type check
            size_t pi = 0;
            uint32_t po = 0;
            for (size_t fi = 0; fi < frames.size(); ++fi)
            {
                const Bytes& f = frames[fi];
                ref::Walked wk = ref::walk(f);
                if (!wk.hdrOk)
                {
                    w.fail("frame-shorter-than-header", fmt("frame %zu has %zu bytes", fi, f.size()));
                    continue;
                }
                uint16_t expect = s.cm.expectedNext;
                if (!s.cm.onFrame(wk.fh.seq))
                    w.fail("sequence-counter-not-consecutive", fmt("frame %zu of encode(E%d) carries counter %u, expected %u", fi, o.arg, wk.fh.seq, expect));
                if (wk.fh.version != c.ver)
                    w.fail("frame-header:version", fmt("frame %zu carries version %u, batch version is %u", fi, wk.fh.version, c.ver));
                if (wk.fh.reserved != 0)
                    w.fail("frame-header:reserved-nonzero", fmt("frame %zu reserved byte = 0x%x", fi, wk.fh.reserved));
                if (wk.fh.device != s.dev)
                    w.fail("frame-header:device-id", fmt("frame %zu carries device 0x%x, configured 0x%x", fi, wk.fh.device, s.dev));
                if (wk.fh.stream != s.str)
                    w.fail("frame-header:stream-id", fmt("frame %zu carries stream 0x%x, configured 0x%x", fi, wk.fh.stream, s.str));
                for (auto& m : wk.msgs)
                {
                    while (pi < b.eff.size() && b.eff[pi].len == 0)
                        ++pi;   // a zero-length payload emits no message
                    if (pi >= b.eff.size())
                        break;
                    if (wk.fh.msgType != b.eff[pi].mt)
                        w.fail("frame-header:message-type",
                               fmt("frame %zu announces message type 0x%x but carries a message of packet %zu (type 0x%x)", fi, wk.fh.msgType, pi, b.eff[pi].mt));
                    po += m.h.plen;
                    if (po >= b.eff[pi].len)
                    {
                        ++pi;
                        po = 0;
                    }
                }
            }
            if (!frames.empty() && s.enc.getSequenceCounter() != s.cm.last)
                w.fail("reported-counter-differs-from-last-frame",
                       fmt("getSequenceCounter()=%u, last emitted frame carries %u", s.enc.getSequenceCounter(), s.cm.last));
            if (s.enc.getDeviceId() != s.dev || s.enc.getStreamId() != s.str)
                w.fail("reported-identity-differs", fmt("getDeviceId/getStreamId = 0x%x/0x%x, configured 0x%x/0x%x", s.enc.getDeviceId(), s.enc.getStreamId(), s.dev, s.str));
            break;
        }
    }
    return frames;
}

static std::vector<EncOp> parseHist(const std::string& h)
{
    std::vector<EncOp> ops;
    for (auto& t : mc::split(h, ','))
    {
        if (t.empty())
            continue;
        EncOp o;
        o.kind = t[0];
        o.arg = t.size() > 1 ? (int) strtol(t.c_str() + 1, nullptr, 16) : 0;
        ops.push_back(o);
    }
    return ops;
}

// Iterative-deepening DFS over histories: nodes above the target depth are re-executed silently
// (their verdicts were produced by earlier rounds), nodes AT the target depth are judged. Every
// prefix of every history is therefore judged exactly once, shortest first.
static std::string histName(const std::vector<int>& path)
{
    std::string h = "h=";
    for (size_t i = 0; i < path.size(); ++i)
        h += (i ? "," : "") + opName(kOps[path[i]]);
    return h;
}

static void dfs09(W& w, const HistState& s, std::vector<int>& path, int target)
{
    for (int k = 0; k < (int) kOps.size(); ++k)
    {
        path.push_back(k);
        if ((int) path.size() == target)
        {
            auto desc = [&] { return histName(path); };
            if (w.begin_case(desc))
            {
                HistState n = s;   // copy of the real encoder
                auto frames = applyOp(w, n, kOps[k], true);
                w.add(mc::C_TRANS, 1);
                w.add(mc::C_STATES, 1);
                w.add(mc::C_TRACES, 1);
                w.outcome(mc::mix(mc::mix(structureHash(frames), n.cm.last), (uint64_t) n.dev << 8 | n.str));
            }
        }
        else
        {
            HistState n = s;
            W silent;
            silent.single = true;
            applyOp(silent, n, kOps[k], true);
            dfs09(w, n, path, target);
        }
        path.pop_back();
    }
}

static void replay09(W& w, const std::string& cs)
{
    auto m = mc::kv_parse(cs);
    if (m.count("wrap"))
    {
        int variant = atoi(m["wrap"].c_str());
        HistState s;
        EncOp big{'E', 100};
        (void) big;
        CaseSpec c;
        c.mn = 0; c.mx = 25; c.b = {gen(1, 65535, 0)};
        auto run = [&](int nth) {
            Built b = build(c);
            auto frames = runEncode(s.enc, c, b);
            for (size_t fi = 0; fi < frames.size(); ++fi)
            {
                ref::Walked wk = ref::walk(frames[fi]);
                if (!wk.hdrOk)
                {
                    w.fail("frame-shorter-than-header", "wrap run");
                    continue;
                }
                uint16_t expect = s.cm.expectedNext;
                if (!s.cm.onFrame(wk.fh.seq))
                {
                    w.fail("sequence-counter-not-consecutive", fmt("wrap run, call %d frame %zu: counter %u expected %u", nth, fi, wk.fh.seq, expect));
                    break;
                }
                if (wk.fh.device != s.dev || wk.fh.stream != s.str)
                    w.fail("frame-header:device-id", "wrap run: identity differs");
            }
            if (!frames.empty() && s.enc.getSequenceCounter() != s.cm.last)
                w.fail("reported-counter-differs-from-last-frame", fmt("wrap run: getSequenceCounter()=%u last frame %u", s.enc.getSequenceCounter(), s.cm.last));
            w.add(mc::C_TRANS, 1);
            w.add(mc::C_STATES, frames.size());
            w.outcome(mc::mix(frames.size(), s.cm.last));
        };
        run(0);
        if (variant == 1)
        {
            s.enc.setStreamId(9);
            s.str = 9;
            s.cm.reset();
        }
        run(1);
        run(2);
        w.add(mc::C_TRACES, 1);
        return;
    }
    HistState s;
    for (auto& o : parseHist(m["h"]))
        applyOp(w, s, o, true);
}

// C10: frames(h . encode(final)) == frames(fresh encoder with the same ids . encode(final)) modulo
// a constant counter offset
static void compareC10(W& w, HistState& used, int fin)
{
    CaseSpec c = encodeArg(fin);
    Built b1 = build(c);
    std::vector<Bytes> a = runEncode(used.enc, c, b1);
    Encoder fresh;
    fresh.setDeviceId(used.dev);
    fresh.setStreamId(used.str);
    Built b2 = build(c);
    std::vector<Bytes> f = runEncode(fresh, c, b2);
    w.outcome(mc::mix(structureHash(a), structureHash(f)));
    if (a.size() != f.size())
    {
        w.fail("output-depends-on-history:frame-count", fmt("used encoder returned %zu frames, fresh encoder %zu", a.size(), f.size()));
        return;
    }
    int off = -1;
    for (size_t i = 0; i < a.size(); ++i)
    {
        if (a[i].size() != f[i].size())
        {
            w.fail("output-depends-on-history:frame-size", fmt("frame %zu: %zu bytes vs %zu bytes on a fresh encoder", i, a[i].size(), f[i].size()));
            return;
        }
        if (a[i].size() < 8)
            continue;
        int d = (int) (((uint16_t) ref::rd(&a[i][6], 2) - (uint16_t) ref::rd(&f[i][6], 2)) & 0xFFFF);
        if (off < 0)
            off = d;
        else if (d != off)
            w.fail("output-depends-on-history:counter-offset-not-constant", fmt("frame %zu: counter offset %d, frame 0: %d", i, d, off));
        for (size_t k = 0; k < a[i].size(); ++k)
            if (k != 6 && k != 7 && a[i][k] != f[i][k])
            {
                w.fail(k < 8 ? "output-depends-on-history:frame-header" : "output-depends-on-history:frame-body",
                       fmt("frame %zu differs from the fresh encoder's at byte %zu (0x%02x vs 0x%02x)", i, k, a[i][k], f[i][k]));
                break;
            }
    }
}

static void dfs10(W& w, const HistState& s, std::vector<int>& path, int target)
{
    if ((int) path.size() == target)
    {
        for (int fin = 0; fin < 15; ++fin)
        {
            int fa = fin;          // 0..9 finals, 10/11 the version-only variants, 12 the zero-length-payload batch, 13 message type 0
            if (fin == 14)
            {
                // the same batch as the last encode of the history
                fa = -1;
                for (int i = (int) path.size() - 1; i >= 0; --i)
                    if (kOps[path[i]].kind == 'E')
                    {
                        fa = kOps[path[i]].arg;
                        break;
                    }
                if (fa < 0)
                    continue;
            }
            auto desc = [&] { return histName(path) + fmt(";f=%d", fa); };
            if (!w.begin_case(desc))
                continue;
            HistState n = s;
            compareC10(w, n, fa);
            w.add(mc::C_TRANS, 2);
            w.add(mc::C_TRACES, 1);
        }
        w.add(mc::C_STATES, 1);
        return;
    }
    for (int k = 0; k < (int) kOps.size(); ++k)
    {
        path.push_back(k);
        HistState n = s;
        W silent;
        silent.single = true;
        applyOp(silent, n, kOps[k], false);
        dfs10(w, n, path, target);
        path.pop_back();
    }
}

static void replay10(W& w, const std::string& cs)
{
    auto m = mc::kv_parse(cs);
    HistState s;
    for (auto& o : parseHist(m["h"]))
        applyOp(w, s, o, false);
    compareC10(w, s, atoi(m["f"].c_str()));
}

// ---------------------------------------------------------------------------------------------
int main(int argc, char** argv)
{
    mc::Options opt = mc::parse_args(argc, argv, "enc");
    mc::Run run(opt);
    const std::string prop = opt.prop;
    const bool thorough = opt.tier == "thorough";
    run.assumptions = {
        "payload content is one position-dependent pattern per packet (data bytes are only copied by the codec)",
        "lengths are enumerated around every fit/no-fit boundary of each frame size, not all 65535 x all frame sizes jointly",
        "VERIF_SEED is ignored: nothing is sampled",
    };

    if (prop == "C01" || prop == "C07" || prop == "C08")
    {
        Domain dom = makeDomain(prop, thorough);
        run.rule = "full cartesian product of boundary-centred payload lengths {1,2,u-1,u,u+1,2u-1,2u,2u+1,3u+1} (u=max-24) x message types x "
                   "batch sizes x frame-size contexts on fresh real Encoder objects and on encoders that already made one call (same context and another version: small data / small status / "
                   "segmenting batch; same version: larger, smaller and equal frame size, and a minimum above this call's maximum), plus typed prototypes, header-field sweeps, extremes; "
                   "distinct = distinct observed frame structures (frame sizes, messages per frame, slice lengths and segment flags)";
        run.replay_case = [prop](W& w, const std::string& cs) {
            CaseSpec c = parseCase(cs);
            judge(w, prop, c);
        };
        if (!opt.case_file.empty())
        {
            std::ifstream in(opt.case_file);
            std::string cs((std::istreambuf_iterator<char>(in)), std::istreambuf_iterator<char>());
            while (!cs.empty() && (cs.back() == '\n' || cs.back() == '\r'))
                cs.pop_back();
            return run.run_single(cs);
        }
        // rounds: simplest first
        auto roundOf = [&](const std::string& name, std::function<bool(const Task&)> sel) {
            std::vector<Task> ts;
            for (auto& t : dom.tasks)
                if (sel(t))
                    ts.push_back(t);
            if (ts.empty())
                return;
            run.round(name, ts.size(), [&, ts](W& w, uint64_t o) { runTask(w, prop, dom, ts[o]); });
        };
        roundOf("empty batch", [](const Task& t) { return t.part == 'E'; });
        roundOf("batches with zero-length payloads", [](const Task& t) { return t.part == 'Z'; });
        for (int n = 1; n <= (thorough ? 4 : 3); ++n)
            roundOf("boundary lengths, batch size " + std::to_string(n), [n](const Task& t) { return t.part == 'A' && t.n == n; });
        roundOf("typed prototypes (singles, ordered pairs, triples) x 5 contexts x encode overloads", [](const Task& t) { return t.part == 'B'; });
        roundOf("header-field sweeps over three batch shapes", [](const Task& t) { return t.part == 'C'; });
        roundOf("extremes (65535-byte payloads, exact fit, 65535 one-byte segments)", [](const Task& t) { return t.part == 'D'; });
        if (thorough)
        {
            roundOf("every length 1..3u+2, batch size 1", [](const Task& t) { return t.part == 'L' && t.n == 1; });
            roundOf("every length 1..3u+2, batch size 2", [](const Task& t) { return t.part == 'L' && t.n == 2; });
            roundOf("every single length 1..65535 at max 64 and 1500", [](const Task& t) { return t.part == 'S'; });
        }
        return run.finish();
    }

    if (prop == "C09")
    {
        const int depth = thorough ? 7 : 5;
        run.rule = "every history over the 16-op alphabet {setDeviceId x2, setStreamId x2, restart, the getters (an observation between two operations), encode x10 (batch,context,version) triples, two of which differ from another one in the version only, one with a zero-length payload between two type changes, one with message type 0; all packets carry their own non-zero ids} up to the "
                   "stated depth as a tree of copied real Encoder objects, every prefix judged by the counter/identity model; distinct = distinct "
                   "(frame structure of the last call, last counter, identity) outcomes";
        run.extra.push_back({"depth", mc::Json::num(depth)});
        run.replay_case = replay09;
        if (!opt.case_file.empty())
        {
            std::ifstream in(opt.case_file);
            std::string cs;
            std::getline(in, cs);
            return run.run_single(cs);
        }
        const int nops = (int) kOps.size();
        for (int d = 1; d <= depth; ++d)
        {
            const int plen = std::min(2, d - 1);
            uint64_t nout = plen == 0 ? 1 : (plen == 1 ? nops : (uint64_t) nops * nops);
            run.round("all histories of depth " + std::to_string(d) + " (last op judged; shorter prefixes judged in earlier rounds)", nout,
                      [&, d, plen](W& w, uint64_t o) {
                          HistState s;
                          std::vector<int> path;
                          W silent;
                          silent.single = true;
                          if (plen == 2)
                              path = {(int) (o / nops), (int) (o % nops)};
                          else if (plen == 1)
                              path = {(int) o};
                          for (int k : path)
                              applyOp(silent, s, kOps[k], true);
                          dfs09(w, s, path, d);
                      });
            if (run.out_of_time())
                break;
        }
        // counter wrap histories
        run.round("counter wrap: 65535-byte packet at max 25 three times (and with setStreamId in between)", 2, [&](W& w, uint64_t o) {
            std::string cs = fmt("wrap=%d", (int) o);
            auto desc = [&] { return cs; };
            if (!w.begin_case(desc))
                return;
            replay09(w, cs);
        });
        return run.finish();
    }

    if (prop == "C10")
    {
        const int depth = thorough ? 6 : 4;
        run.rule = "for every history of depth <= d over the C09 alphabet and every final (batch,context,version) of a 12-element set plus 'the same batch "
                   "as the last call': frames of the used real Encoder vs frames of a fresh Encoder with the same ids, byte for byte modulo a "
                   "constant counter offset; distinct = distinct (used, fresh) frame-structure pairs";
        run.extra.push_back({"depth", mc::Json::num(depth)});
        run.replay_case = replay10;
        if (!opt.case_file.empty())
        {
            std::ifstream in(opt.case_file);
            std::string cs;
            std::getline(in, cs);
            return run.run_single(cs);
        }
        const int nops = (int) kOps.size();
        for (int d = 0; d <= depth; ++d)
        {
            const int plen = std::min(2, std::max(0, d - 1));
            uint64_t nout = plen == 0 ? 1 : (plen == 1 ? nops : (uint64_t) nops * nops);
            run.round("all histories of depth " + std::to_string(d) + " x all finals", nout, [&, d, plen](W& w, uint64_t o) {
                HistState s;
                std::vector<int> path;
                W silent;
                silent.single = true;
                if (plen == 2)
                    path = {(int) (o / nops), (int) (o % nops)};
                else if (plen == 1)
                    path = {(int) o};
                for (int k : path)
                    applyOp(silent, s, kOps[k], false);
                dfs10(w, s, path, d);
            });
            if (run.out_of_time())
                break;
        }
        // fault injection: an earlier call that was aborted by an exception (thrown by the caller's packet source after the first packet
        // had been put into a frame) leaves nothing behind either
        {
            static const char* kAborted[] = {"X5", "X1", "X2", "X3", "E1,X5", "X5,X5", "E2,X1", "X5,E0", "D1,X5", "X5,S7", "XD", "X5,R"};
            run.round("histories with an encode call aborted by an exception from the packet source x all finals", sizeof(kAborted) / sizeof(kAborted[0]), [&](W& w, uint64_t o) {
                HistState s;
                W silent;
                silent.single = true;
                for (auto& op : parseHist(kAborted[o]))
                    applyOp(silent, s, op, false);
                for (int fin = 0; fin < 14; ++fin)
                {
                    auto desc = [&] { return fmt("h=%s;f=%d", kAborted[o], fin); };
                    if (!w.begin_case(desc))
                        continue;
                    HistState n = s;
                    compareC10(w, n, fin);
                    w.add(mc::C_TRANS, 2);
                    w.add(mc::C_TRACES, 1);
                }
                w.add(mc::C_STATES, 1);
            });
        }
        // an earlier call with an EMPTY batch (the one call that returns without having opened a frame) leaves nothing behind either
        {
            static const char* kEmpty[] = {"E30", "E31", "E30,E30", "E1,E30", "E30,E1", "E2,E30", "D1,E30", "E30,S7", "E30,R", "E5,E31,E0", "E30,X5", "X5,E30", "G,E30,G"};
            run.round("histories with an encode call on an empty batch x all finals", sizeof(kEmpty) / sizeof(kEmpty[0]), [&](W& w, uint64_t o) {
                HistState s;
                W silent;
                silent.single = true;
                for (auto& op : parseHist(kEmpty[o]))
                    applyOp(silent, s, op, false);
                for (int fin = 0; fin < 14; ++fin)
                {
                    auto desc = [&] { return fmt("h=%s;f=%d", kEmpty[o], fin); };
                    if (!w.begin_case(desc))
                        continue;
                    HistState n = s;
                    compareC10(w, n, fin);
                    w.add(mc::C_TRANS, 2);
                    w.add(mc::C_TRACES, 1);
                }
                w.add(mc::C_STATES, 1);
            });
        }
        // fault injection at EVERY allocation: an earlier encode call in which the n-th allocation failed (memory exhaustion), for every n
        // up to the number of allocations the call makes, alone and after / before another call
        {
            struct AT { const char* pre; int arg; const char* post; };
            std::vector<AT> ats;
            for (int arg : {0, 1, 2, 3, 5, 6, 12, 13, 14})
                for (const char* pre : {"", "E1,", "E2,"})
                    for (const char* post : {"", ",E0"})
                        ats.push_back({pre, arg, post});
            run.round("histories with an encode call aborted at its n-th allocation (every n) x all finals", ats.size(), [&, ats](W& w, uint64_t o) {
                const AT& t = ats[o];
                for (int n = 1; n < 200; ++n)
                {
                    std::string hist = fmt("%sA%x%s", t.pre, (n << 8) | t.arg, t.post);
                    HistState s;
                    W silent;
                    silent.single = true;
                    bool fired = false;
                    for (auto& op : parseHist(hist))
                    {
                        applyOp(op.kind == 'A' ? w : silent, s, op, false);
                        if (op.kind == 'A')
                            fired = s.faultFired;
                    }
                    if (!fired)
                        break;   // the call makes fewer than n allocations
                    for (int fin = 0; fin < 14; ++fin)
                    {
                        auto desc = [&] { return fmt("h=%s;f=%d", hist.c_str(), fin); };
                        if (!w.begin_case(desc))
                            continue;
                        HistState n2 = s;
                        compareC10(w, n2, fin);
                        w.add(mc::C_TRANS, 2);
                        w.add(mc::C_TRACES, 1);
                    }
                    w.add(mc::C_STATES, 1);
                }
            });
        }
        // histories long enough to bring the 16-bit frame counter to its wrap / sign boundary: every final then straddles it
        {
            static const char* kLong[] = {"E20", "E21", "E22", "E20,E2", "E21,E0", "E22,E1", "E20,E20", "E0,E21", "D1,E20", "E21,S7,E20"};
            run.round("long histories (65530 / 65533 / 32765 frames emitted) x all finals", sizeof(kLong) / sizeof(kLong[0]), [&](W& w, uint64_t o) {
                HistState s;
                W silent;
                silent.single = true;
                for (auto& op : parseHist(kLong[o]))
                    applyOp(silent, s, op, false);
                for (int fin = 0; fin < 14; ++fin)
                {
                    auto desc = [&] { return fmt("h=%s;f=%d", kLong[o], fin); };
                    if (!w.begin_case(desc))
                        continue;
                    HistState n = s;
                    compareC10(w, n, fin);
                    w.add(mc::C_TRANS, 2);
                    w.add(mc::C_TRACES, 1);
                }
                w.add(mc::C_STATES, 1);
            });
        }
        return run.finish();
    }

    fprintf(stderr, "engine enc does not serve %s\n", prop.c_str());
    return 2;
}
