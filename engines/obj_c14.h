// C14: packets and payloads behave as values (copy / move / assign / equality over all ordered pairs
// of a pool that contains empty packets, zero-length payloads and equal-looking objects).
#pragma once
#include <asam_cmp/decoder.h>

#include <limits>
#include <asam_cmp/tecmp_payload.h>

#include "engines/obj_c11.h"
#include "ref/payloads.h"

namespace c14 {
namespace A = ASAM::CMP;

static volatile uint64_t g_sink14;
struct Item
{
    std::string name;
    std::function<A::Packet()> make;
    bool hasPayload;
};

static inline Bytes pat(size_t n, unsigned tag)
{
    Bytes b(n);
    for (size_t i = 0; i < n; ++i)
        b[i] = (uint8_t) (i * 19u + tag * 31u + 3u);
    return b;
}

static inline A::Packet canPacket(uint8_t lastByte, uint64_t ts)
{
    A::CanPayload c;
    c.setId(0x321);
    Bytes d = pat(8, 1);
    d[7] = lastByte;
    c.setData(d.data(), 8);
    A::Packet p;
    p.setPayload(c);
    p.setTimestamp(ts);
    p.setInterfaceId(0x10);
    p.setDeviceId(3);
    p.setStreamId(1);
    return p;
}
static inline A::Packet distinctive(uint8_t stream, A::MessageHeader::SegmentType seg, uint8_t pt)
{
    A::Packet p;
    Bytes d = pat(5, 2);
    p.setPayload(A::Payload(A::PayloadType(A::CmpHeader::MessageType::data, pt), d.data(), d.size()));
    p.setVersion(0x11); p.setDeviceId(0x2233); p.setStreamId(stream); p.setSequenceCounter(0x5566); p.setTimestamp(0x778899AABBCCDDEEull); p.setInterfaceId(0x0F1E2D3C);
    p.setVendorId(0x4B5A); p.setCommonFlags(0x63); p.setSegmentType(seg);
    return p;
}

static inline std::vector<Item> pool()
{
    using ST = A::MessageHeader::SegmentType;
    std::vector<Item> v;
    v.push_back({"default(no payload)", [] { return A::Packet(); }, false});
    v.push_back({"zero-length CAN payload", [] { A::Packet p; p.setPayload(A::Payload(A::PayloadType(A::PayloadType::can), nullptr, 0)); return p; }, true});
    v.push_back({"zero-length LIN payload", [] { A::Packet p; p.setPayload(A::Payload(A::PayloadType(A::PayloadType::lin), nullptr, 0)); return p; }, true});
    v.push_back({"zero-length invalid-type payload", [] { A::Packet p; p.setPayload(A::Payload(A::PayloadType(A::PayloadType::invalid), nullptr, 0)); return p; }, true});
    v.push_back({"CAN 8 bytes", [] { return canPacket(0x77, 100); }, true});
    v.push_back({"CAN 8 bytes, last data byte differs", [] { return canPacket(0x78, 100); }, true});
    v.push_back({"CAN 8 bytes, timestamp differs", [] { return canPacket(0x77, 101); }, true});
    v.push_back({"Ethernet 1500 bytes", [] { A::EthernetPayload e; Bytes d = pat(1500, 3); e.setData(d.data(), 1500); A::Packet p; p.setPayload(e); p.setTimestamp(7); return p; }, true});
    v.push_back({"capture-module status", [] { A::CaptureModulePayload c; c.setUptime(5); c.setData("dev", "sn", "hw", "sw", {1, 2, 3}); A::Packet p; p.setPayload(c); p.setVendorId(0x1234); return p; }, true});
    v.push_back({"interface status", [] { A::InterfacePayload c; c.setInterfaceId(9); uint8_t s[3] = {1, 2, 3}; c.setData(s, 3, nullptr, 0); A::Packet p; p.setPayload(c); return p; }, true});
    v.push_back({"decoder-produced LIN packet",
                 [] {
                     ref::LinF f;
                     f.pid = 0x33; f.dataLen = 4; f.data = pat(4, 4);
                     ref::FrameHdr fh;
                     fh.device = 0x99; fh.stream = 8; fh.version = 2; fh.seq = 44;
                     Bytes fr = ref::buildFrame(fh, {ref::mkMsg(ref::PT_LIN, ref::linPayload(f), 0x21, 0xABCDEF, 0x55)});
                     A::Decoder d;
                     auto pk = d.decode(fr.data(), fr.size());
                     return pk.empty() ? A::Packet() : *pk[0];
                 },
                 true});
    // decoder-produced typed packets (they own an object of the concrete payload class) whose payload was then edited IN PLACE through
    // getPayload() into a state the class's own validity check rejects: still a value like any other
    v.push_back({"decoder-produced CAN packet, crc error flag set in place",
                 [] {
                     ref::CanF f;
                     f.idword = 0x2AB; f.dlc = 4; f.dataLen = 4; f.data = pat(4, 8);
                     ref::FrameHdr fh;
                     fh.device = 0x98; fh.stream = 7; fh.seq = 45;
                     Bytes fr = ref::buildFrame(fh, {ref::mkMsg(ref::PT_CAN, ref::canPayload(f), 0x01, 0xABCDE0, 0x56)});
                     A::Decoder d;
                     auto pk = d.decode(fr.data(), fr.size());
                     if (pk.empty())
                         return A::Packet();
                     A::Packet p = std::move(*pk[0]);   // moved, not copied: keeps the payload object the decoder created
                     static_cast<A::CanPayloadBase&>(p.getPayload()).setFlag(A::CanPayloadBase::Flags::crcErr, true);
                     return p;
                 },
                 true});
    v.push_back({"decoder-produced Ethernet packet, data length raised beyond the bytes in place",
                 [] {
                     ref::EthF f;
                     f.dataLen = 6; f.data = pat(6, 9);
                     ref::FrameHdr fh;
                     fh.device = 0x97; fh.stream = 6; fh.seq = 46;
                     Bytes fr = ref::buildFrame(fh, {ref::mkMsg(ref::PT_ETH, ref::ethPayload(f), 0x02, 0xABCDE1, 0x57)});
                     A::Decoder d;
                     auto pk = d.decode(fr.data(), fr.size());
                     if (pk.empty())
                         return A::Packet();
                     A::Packet p = std::move(*pk[0]);   // moved, not copied: keeps the payload object the decoder created
                     uint8_t* raw = const_cast<uint8_t*>(p.getPayload().getRawPayload());
                     raw[4] = 0x01;   // data length 0x0106 > 6 bytes present
                     return p;
                 },
                 true});
    v.push_back({"all header fields distinctive", [] { return distinctive(0x44, ST::intermediarySegment, 0xFE); }, true});
    v.push_back({"... stream id differs", [] { return distinctive(0x45, ST::intermediarySegment, 0xFE); }, true});
    v.push_back({"... segment type differs", [] { return distinctive(0x44, ST::lastSegment, 0xFE); }, true});
    v.push_back({"... MESSAGE type differs (status), same raw payload type byte, same bytes",
                 [] {
                     auto p = distinctive(0x44, ST::intermediarySegment, 0xFE);
                     Bytes d = pat(5, 2);
                     p.setPayload(A::Payload(A::PayloadType(A::CmpHeader::MessageType::status, 0xFE), d.data(), d.size()));
                     return p;
                 },
                 true});
    v.push_back({"... payload type differs, same bytes", [] { return distinctive(0x44, ST::intermediarySegment, 0xFD); }, true});
    // one member per header field that differs from "all header fields distinctive" in that field ONLY
    v.push_back({"... version differs", [] { auto p = distinctive(0x44, ST::intermediarySegment, 0xFE); p.setVersion(0x12); return p; }, true});
    v.push_back({"... device id differs", [] { auto p = distinctive(0x44, ST::intermediarySegment, 0xFE); p.setDeviceId(0x2234); return p; }, true});
    v.push_back({"... sequence counter differs", [] { auto p = distinctive(0x44, ST::intermediarySegment, 0xFE); p.setSequenceCounter(0x5567); return p; }, true});
    v.push_back({"... interface id differs", [] { auto p = distinctive(0x44, ST::intermediarySegment, 0xFE); p.setInterfaceId(0x0F1E2D3D); return p; }, true});
    v.push_back({"... vendor id differs", [] { auto p = distinctive(0x44, ST::intermediarySegment, 0xFE); p.setVendorId(0x4B5B); return p; }, true});
    v.push_back({"... common flags differ", [] { auto p = distinctive(0x44, ST::intermediarySegment, 0xFE); p.setCommonFlags(0x62); return p; }, true});
    // ... and in every OTHER single bit of the common-flags byte (the byte is stored as written, whatever the segment type says)
    for (int bit = 1; bit < 8; ++bit)
        v.push_back({ofmt("... common flags differ in bit %d only", bit), [bit] { auto p = distinctive(0x44, ST::intermediarySegment, 0xFE); p.setCommonFlags((uint8_t) (p.getCommonFlags() ^ (1u << bit))); return p; }, true});
    v.push_back({"... timestamp high word differs", [] { auto p = distinctive(0x44, ST::intermediarySegment, 0xFE); p.setTimestamp(0x778899ABBBCCDDEEull); return p; }, true});
    v.push_back({"... payload one byte longer", [] { auto p = distinctive(0x44, ST::intermediarySegment, 0xFE); Bytes d = pat(6, 2); p.setPayload(A::Payload(A::PayloadType(A::CmpHeader::MessageType::data, 0xFE), d.data(), d.size())); return p; }, true});
    v.push_back({"one-byte payload", [] { A::Packet p; uint8_t b = 0x5A; p.setPayload(A::Payload(A::PayloadType(0x01FEu), &b, 1)); return p; }, true});
    v.push_back({"payload of type 0x0100 (raw type 0), 5 bytes", [] { A::Packet p; Bytes d = pat(5, 6); p.setPayload(A::Payload(A::PayloadType(0x0100u), d.data(), 5)); return p; }, true});
    v.push_back({"payload of type 0x0100 (raw type 0), 5 other bytes", [] { A::Packet p; Bytes d = pat(5, 7); p.setPayload(A::Payload(A::PayloadType(0x0100u), d.data(), 5)); return p; }, true});
    v.push_back({"one-byte payload, other byte", [] { A::Packet p; uint8_t b = 0x5B; p.setPayload(A::Payload(A::PayloadType(0x01FEu), &b, 1)); return p; }, true});
    v.push_back({"... first payload byte differs", [] { auto p = distinctive(0x44, ST::intermediarySegment, 0xFE); Bytes d = pat(5, 2); d[0] ^= 0x80; p.setPayload(A::Payload(A::PayloadType(A::CmpHeader::MessageType::data, 0xFE), d.data(), d.size())); return p; }, true});
    v.push_back({"... last payload byte differs", [] { auto p = distinctive(0x44, ST::intermediarySegment, 0xFE); Bytes d = pat(5, 2); d[4] ^= 0x01; p.setPayload(A::Payload(A::PayloadType(A::CmpHeader::MessageType::data, 0xFE), d.data(), d.size())); return p; }, true});
    return v;
}

// Observation as a string: every getter + payload presence / type / bytes. If a payload is expected
// the payload getters are called (a packet that wrongly lost its payload crashes here: fatal outcome).
static inline std::string observe(const A::Packet& p, bool expectPayload)
{
    std::string s = ofmt("ver=%u dev=%x str=%x seq=%x ts=%llx if=%x vid=%x fl=%x seg=%x valid=%d len=%u", p.getVersion(), p.getDeviceId(), p.getStreamId(), p.getSequenceCounter(),
                         (unsigned long long) p.getTimestamp(), p.getInterfaceId(), p.getVendorId(), p.getCommonFlags(), (unsigned) p.getSegmentType(), p.isValid(), p.getPayloadLength());
    if (expectPayload)
    {
        const A::Payload& pl = p.getPayload();
        s += ofmt(" mt=%x pt=%x type=%x plen=%zu bytes=", (unsigned) p.getMessageType(), p.getPayloadType(), pl.getType().getType(), pl.getLength());
        s += mc::hex(pl.getRawPayload(), std::min<size_t>(pl.getLength(), 64));
        s += ofmt(" h=%llx", (unsigned long long) mc::fnv(pl.getRawPayload(), pl.getLength()));
    }
    else
        s += " (no payload)";
    return s;
}

static inline void mutate(A::Packet& p, bool hasPayload)
{
    p.setTimestamp(p.getTimestamp() ^ 0xFFFF);
    p.setStreamId((uint8_t) (p.getStreamId() + 1));
    p.setCommonFlags((uint8_t) (p.getCommonFlags() ^ 0x20));
    if (hasPayload)
    {
        A::Payload& pl = p.getPayload();
        pl.setRawPayloadType((uint8_t) (pl.getRawPayloadType() ^ 0x40));
        if (pl.getLength() >= 16)
            static_cast<A::CanPayloadBase&>(pl).setId(static_cast<A::CanPayloadBase&>(pl).getId() ^ 0x155);   // flips payload bytes 4..7
    }
}

static inline void opCase(W& w, const std::vector<Item>& P, const std::string& op, size_t si, size_t ti)
{
    const Item& S = P[si];
    const Item& T = P[ti];
    A::Packet src = S.make();
    const std::string want = observe(src, S.hasPayload);
    std::string key = "value:" + op;
    auto check = [&](const A::Packet& tgt, const char* what) {
        std::string got = observe(tgt, S.hasPayload);
        if (got != want)
            w.fail(key + ":target-differs-from-source", std::string(what) + ": source '" + S.name + "' -> target that held '" + T.name + "': target is {" + got + "}, source was {" + want + "}");
    };
    w.add(mc::C_TRANS, 1);
    if (op == "copy-construct")
    {
        auto tgt = std::make_unique<A::Packet>(src);
        check(*tgt, "copy construction");
        if (observe(src, S.hasPayload) != want)
            w.fail(key + ":source-changed", "copy construction changed the source");
        mutate(*tgt, S.hasPayload);
        if (observe(src, S.hasPayload) != want)
            w.fail(key + ":copy-shares-state-with-original", "mutating the copy changed the original '" + S.name + "'");
        tgt.reset();
        if (observe(src, S.hasPayload) != want)
            w.fail(key + ":copy-shares-state-with-original", "destroying the copy changed the original");
        A::Packet t2(src);
        mutate(src, S.hasPayload);
        if (observe(t2, S.hasPayload) != want)
            w.fail(key + ":copy-shares-state-with-original", "mutating the original changed the copy");
        // write access obtained BEFORE the copy was made and used after it (a long-lived Payload& into the original)
        if (S.hasPayload)
        {
            A::Packet o2 = S.make();
            A::Payload& held = o2.getPayload();
            A::Packet t3(o2);
            A::Packet t4 = T.make();
            t4 = o2;
            held.setRawPayloadType((uint8_t) (held.getRawPayloadType() ^ 0x40));
            if (held.getLength() > 0)
                const_cast<uint8_t*>(held.getRawPayload())[held.getLength() - 1] ^= 0xFF;
            if (observe(t3, S.hasPayload) != want)
                w.fail(key + ":copy-shares-state-with-original", "writing through a payload reference obtained before the copy changed the copy-constructed packet");
            if (observe(t4, S.hasPayload) != want)
                w.fail("value:copy-assign:copy-shares-state-with-original", "writing through a payload reference obtained before the copy changed the copy-assigned packet");
        }
    }
    else if (op == "move-construct")
    {
        A::Packet tgt(std::move(src));
        check(tgt, "move construction");
        src = T.make();   // the moved-from object must stay assignable / destructible
        if (observe(src, T.hasPayload) != observe(T.make(), T.hasPayload))
            w.fail(key + ":moved-from-object-not-reusable", "assigning to a moved-from packet does not take the value");
    }
    else if (op == "copy-assign")
    {
        auto tgt = std::make_unique<A::Packet>(T.make());
        *tgt = src;
        check(*tgt, "copy assignment");
        if (observe(src, S.hasPayload) != want)
            w.fail(key + ":source-changed", "copy assignment changed the source");
        mutate(*tgt, S.hasPayload);
        if (observe(src, S.hasPayload) != want)
            w.fail(key + ":copy-shares-state-with-original", "mutating the assigned copy changed the original '" + S.name + "'");
        tgt.reset();
        if (observe(src, S.hasPayload) != want)
            w.fail(key + ":copy-shares-state-with-original", "destroying the assigned copy changed the original");
    }
    else if (op == "move-assign")
    {
        A::Packet tgt = T.make();
        tgt = std::move(src);
        check(tgt, "move assignment");
    }
    else if (op == "self-copy-assign")
    {
        A::Packet& r = src;
        src = r;
        if (observe(src, S.hasPayload) != want)
            w.fail(key + ":value-changed", "self copy assignment changed '" + S.name + "': {" + observe(src, S.hasPayload) + "} was {" + want + "}");
    }
    else if (op == "self-move-assign")
    {
        A::Packet& r = src;
        src = std::move(r);
        if (observe(src, S.hasPayload) != want)
            w.fail(key + ":value-changed", "self move assignment changed '" + S.name + "'");
    }
    w.outcome(mc::mix(mc::fnv_s(op), mc::mix(si, ti)));
}

static inline void twoAssign(W& w, const std::vector<Item>& P, size_t ti, size_t ai, size_t bi)
{
    A::Packet t = P[ti].make();
    A::Packet a = P[ai].make(), b = P[bi].make();
    t = a;
    t = b;
    w.add(mc::C_TRANS, 2);
    std::string want = observe(b, P[bi].hasPayload), got = observe(t, P[bi].hasPayload);
    if (got != want)
        w.fail("value:two-assignments:target-differs-from-last-source",
               "target '" + P[ti].name + "' = '" + P[ai].name + "' then = '" + P[bi].name + "': target is {" + got + "}, last source is {" + want + "}");
    w.outcome(mc::mix(7, mc::mix(ai, bi)));
}

// Operation histories on ONE target object (explicit-state exploration of the value operations): every sequence of `depth`
// operations from {copy-assign s, move-assign s, std::swap with a fresh s, for every source s of the sub-pool; self copy
// assignment; self move assignment; round trip through a copy-constructed temporary}. The model of the target is simply "the pool
// member whose value it holds"; the target is observed after EVERY operation, sources of copy operations must stay unchanged,
// and what std::swap leaves in the temporary must be the target's former value.
static const size_t kHistKinds = 3;
static inline size_t histOps(size_t nsrc) { return nsrc * kHistKinds + 3; }
static inline void histCase(W& w, const std::vector<Item>& P, const std::vector<size_t>& sub, size_t ti, const std::vector<size_t>& ops)
{
    size_t cur = sub[ti];
    A::Packet t = P[cur].make();
    std::string hist = "target '" + P[cur].name + "'";
    for (size_t step = 0; step < ops.size(); ++step)
    {
        size_t o = ops[step];
        w.add(mc::C_TRANS, 1);
        if (o < sub.size() * kHistKinds)
        {
            size_t si = sub[o / kHistKinds], kind = o % kHistKinds;
            A::Packet src = P[si].make();
            const std::string want = observe(src, P[si].hasPayload);
            if (kind == 0)
            {
                t = src;
                hist += "; = '" + P[si].name + "'";
                if (observe(src, P[si].hasPayload) != want)
                    w.fail("value:history:source-changed", hist + ": the copy assignment changed its source");
            }
            else if (kind == 1)
            {
                t = std::move(src);
                hist += "; = move('" + P[si].name + "')";
            }
            else
            {
                const std::string former = observe(t, P[cur].hasPayload);
                std::swap(t, src);
                hist += "; swap with '" + P[si].name + "'";
                std::string got = observe(src, P[cur].hasPayload);
                if (got != former)
                    w.fail("value:history:swap-loses-former-value", hist + ": the other object is {" + got + "}, the target was {" + former + "}");
            }
            cur = si;
        }
        else
        {
            size_t k = o - sub.size() * kHistKinds;
            if (k == 0)
            {
                A::Packet& r = t;
                t = r;
                hist += "; self copy assignment";
            }
            else if (k == 1)
            {
                A::Packet& r = t;
                t = std::move(r);
                hist += "; self move assignment";
            }
            else
            {
                A::Packet tmp(t);
                t = std::move(tmp);
                hist += "; through a copy-constructed temporary";
            }
        }
        std::string want = observe(P[cur].make(), P[cur].hasPayload), got = observe(t, P[cur].hasPayload);
        if (got != want)
        {
            w.fail("value:history:target-differs-from-its-value", hist + ": target is {" + got + "}, a fresh '" + P[cur].name + "' is {" + want + "}");
            return;
        }
        A::Packet fresh = P[cur].make();
        if (!(t == fresh) || (t != fresh))
        {
            w.fail("value:history:target-compares-unequal-to-its-value", hist + ": operator== says the target differs from a fresh '" + P[cur].name + "'");
            return;
        }
    }
    w.outcome(mc::mix(11, mc::mix(cur, ops.size() ? ops.back() : 0)));
}

// A copy construction / copy assignment aborted by the failure of its n-th allocation: the source is unchanged, the target is still
// an object that can be observed, destroyed and assigned to, and the repeated assignment gives it the source's value. Returns false
// if the operation makes fewer than n allocations.
static inline bool abortedCopy(W& w, const std::vector<Item>& P, size_t si, size_t ti, int n, bool construct)
{
    A::Packet src = P[si].make();
    const std::string want = observe(src, P[si].hasPayload);
    A::Packet tgt = P[ti].make();
    bool thrown = false;
    mc::af::arm(n);
    try
    {
        if (construct)
        {
            A::Packet c(src);
            mc::af::disarm();
            g_sink14 = g_sink14 + c.getTimestamp();
        }
        else
            tgt = src;
    }
    catch (const std::bad_alloc&)
    {
        thrown = true;
    }
    const bool fired = mc::af::disarm();
    if (!fired)
        return false;
    w.add(mc::C_TRANS, 2);
    const std::string key = construct ? "value:aborted-copy-construct" : "value:aborted-copy-assign";
    if (!thrown)
        w.fail(key + ":allocation-failure-swallowed", "an allocation failed inside the copy, the operation completed normally");
    if (observe(src, P[si].hasPayload) != want)
        w.fail(key + ":source-changed", "the aborted copy of '" + P[si].name + "' changed the source");
    if (!construct)
    {
        // the target holds its old or the new value (either is fine) - reading it must be safe
        std::string mid = tgt.isValid() || true ? observe(tgt, false) : std::string();
        (void) mid;
        tgt = src;
        std::string got = observe(tgt, P[si].hasPayload);
        if (got != want)
            w.fail(key + ":repeated-assignment-differs-from-source", "'" + P[ti].name + "' = '" + P[si].name + "' aborted at allocation " + std::to_string(n) + " and repeated: target is {" + got + "}, source is {" + want + "}");
    }
    w.outcome(mc::mix(17, mc::mix(si * 64 + ti, (uint64_t) n * 2 + construct)));
    return true;
}

static inline void eqCase(W& w, const std::vector<Item>& P, size_t ai, size_t bi)
{
    A::Packet a = P[ai].make(), b = P[bi].make();
    w.add(mc::C_TRANS, 4);
    bool ab = a == b, ba = b == a, nab = a != b;
    if (ai == bi)
    {
        if (!(a == a))
            w.fail("equality:not-reflexive:Packet", "x == x is false for '" + P[ai].name + "'");
        if (!ab)
            w.fail("equality:equal-objects-compare-unequal:Packet", "two separately built '" + P[ai].name + "' packets compare unequal");
    }
    if (ab != ba)
        w.fail("equality:not-symmetric:Packet", "'" + P[ai].name + "' == '" + P[bi].name + "' is " + (ab ? "true" : "false") + ", reversed it is " + (ba ? "true" : "false"));
    if (nab == ab)
        w.fail("equality:inequality-is-not-the-negation:Packet", "a == b and a != b agree for '" + P[ai].name + "' / '" + P[bi].name + "'");
    bool nonEmpty = P[ai].hasPayload && P[bi].hasPayload && a.getPayloadLength() > 0 && b.getPayloadLength() > 0;
    if (nonEmpty)
    {
        bool fieldEq = observe(a, true) == observe(b, true);
        if (ab != fieldEq)
            w.fail(fieldEq ? "equality:equal-objects-compare-unequal:Packet" : "equality:different-objects-compare-equal:Packet",
                   "'" + P[ai].name + "' vs '" + P[bi].name + "': operator== says " + (ab ? "equal" : "different") + ", field-by-field comparison says " + (fieldEq ? "equal" : "different"));
    }
    w.outcome(mc::mix(mc::mix(ai, bi), (uint64_t) ab * 2 + ba));
}

// ---- payload level (A::Payload and TECMP::Payload) ---------------------------------------------------
template <class PL>
static std::string obsPl(const PL& p)
{
    return ofmt("type=%x len=%zu bytes=", (unsigned) p.getType().getType(), p.getLength()) + mc::hex(p.getRawPayload(), p.getLength());
}

template <class PL>
static void payloadCases(W& w, const char* cls, const std::vector<std::pair<std::string, std::function<PL()>>>& P, const std::string& only = "")
{
    for (size_t i = 0; i < P.size(); ++i)
        for (size_t j = 0; j < P.size(); ++j)
        {
            std::string cs = ofmt("k=pl;cls=%s;a=%zu;b=%zu", cls, i, j);
            if (!only.empty() && only != cs)
                continue;
            auto desc = [&] { return cs; };
            if (only.empty() && !w.begin_case(desc))
                continue;
            w.add(mc::C_TRACES, 1);
            w.add(mc::C_TRANS, 6);
            PL a = P[i].second(), b = P[j].second();
            const std::string wa = obsPl(a);
            std::string c = cls;
            // copy construct / copy assign / move construct / move assign
            {
                PL t(a);
                if (obsPl(t) != wa) w.fail("value:copy-construct:target-differs-from-source:" + c, P[i].first);
                PL u = P[j].second();
                u = a;
                if (obsPl(u) != wa) w.fail("value:copy-assign:target-differs-from-source:" + c, P[i].first + " -> " + P[j].first);
                if (obsPl(a) != wa) w.fail("value:copy:source-changed:" + c, P[i].first);
                u.setRawPayloadType((uint8_t) (u.getRawPayloadType() ^ 0x11));
                if (obsPl(a) != wa) w.fail("value:copy-shares-state-with-original:" + c, P[i].first);
                PL m(std::move(t));
                if (obsPl(m) != wa) w.fail("value:move-construct:target-differs-from-source:" + c, P[i].first);
                PL n = P[j].second();
                PL a2 = P[i].second();
                n = std::move(a2);
                if (obsPl(n) != wa) w.fail("value:move-assign:target-differs-from-source:" + c, P[i].first + " -> " + P[j].first);
            }
            bool ab = a == b, ba = b == a;
            if (ab != ba)
                w.fail("equality:not-symmetric:" + c, P[i].first + " vs " + P[j].first);
            if (i == j)
            {
                if (!(a == a))
                    w.fail("equality:not-reflexive:" + c, "x == x is false for '" + P[i].first + "'");
                if (!ab)
                    w.fail("equality:equal-objects-compare-unequal:" + c, "two separately built '" + P[i].first + "' payloads compare unequal");
            }
            if (a.getLength() > 0 && b.getLength() > 0)
            {
                bool fe = obsPl(a) == obsPl(b);
                if (fe != ab)
                    w.fail(fe ? "equality:equal-objects-compare-unequal:" + c : "equality:different-objects-compare-equal:" + c, P[i].first + " vs " + P[j].first);
            }
            w.outcome(mc::mix(mc::fnv_s(c), mc::mix(mc::mix(i, j), ab)));
        }
}

static inline std::vector<std::pair<std::string, std::function<A::Payload()>>> asamPayloads()
{
    using PL = A::Payload;
    return {
        {"generic 5 bytes data/0xFE", [] { Bytes d = pat(5, 1); return PL(A::PayloadType(0x01FEu), d.data(), 5); }},
        {"same bytes status/0xFE", [] { Bytes d = pat(5, 1); return PL(A::PayloadType(0x03FEu), d.data(), 5); }},
        {"CanPayload 8", [] { A::CanPayload c; Bytes d = pat(8, 2); c.setData(d.data(), 8); return PL(c); }},
        {"CanPayload 8, one byte differs", [] { A::CanPayload c; Bytes d = pat(8, 2); d[3] ^= 1; c.setData(d.data(), 8); return PL(c); }},
        {"empty, type CAN", [] { return PL(A::PayloadType(A::PayloadType::can), nullptr, 0); }},
        {"empty, type LIN", [] { return PL(A::PayloadType(A::PayloadType::lin), nullptr, 0); }},
        {"LinPayload 8", [] { A::LinPayload c; Bytes d = pat(8, 3); c.setData(d.data(), 8); return PL(c); }},
        {"EthernetPayload 100", [] { A::EthernetPayload c; Bytes d = pat(100, 4); c.setData(d.data(), 100); return PL(c); }},
        {"generic 6 bytes", [] { Bytes d = pat(6, 1); return PL(A::PayloadType(0x01FEu), d.data(), 6); }},
        {"generic 5 bytes, first byte differs", [] { Bytes d = pat(5, 1); d[0] ^= 0x80; return PL(A::PayloadType(0x01FEu), d.data(), 5); }},
        {"generic 5 bytes, last byte differs", [] { Bytes d = pat(5, 1); d[4] ^= 0x01; return PL(A::PayloadType(0x01FEu), d.data(), 5); }},
        {"one byte", [] { uint8_t b = 7; return PL(A::PayloadType(0x01FEu), &b, 1); }},
        {"one byte, other value", [] { uint8_t b = 8; return PL(A::PayloadType(0x01FEu), &b, 1); }},
        // types for which isValid() is false although the object holds bytes (raw type 0 / message type 0)
        {"type 0x0100 (raw type 0), 5 bytes", [] { Bytes d = pat(5, 6); return PL(A::PayloadType(0x0100u), d.data(), 5); }},
        {"type 0x0100 (raw type 0), 5 other bytes", [] { Bytes d = pat(5, 7); return PL(A::PayloadType(0x0100u), d.data(), 5); }},
        {"type 0x0001 (message type 0), 5 bytes", [] { Bytes d = pat(5, 6); return PL(A::PayloadType(0x0001u), d.data(), 5); }},
        {"type 0x0001 (message type 0), 5 other bytes", [] { Bytes d = pat(5, 7); return PL(A::PayloadType(0x0001u), d.data(), 5); }},
        // payloads that REPORT something (bus errors, an error position): what a payload says is its own business - the packet that is
        // given it keeps its header fields, flags included, and forgets all about it when it is given another payload
        {"CanPayload 8 with formErr and an error position", [] { A::CanPayload c; Bytes d = pat(8, 2); c.setData(d.data(), 8); c.setFlag(A::CanPayloadBase::Flags::formErr, true); c.setErrorPosition(5); return PL(c); }},
        {"CanFdPayload 12 with crcErr", [] { A::CanFdPayload c; Bytes d = pat(12, 2); c.setData(d.data(), 12); c.setFlag(A::CanPayloadBase::Flags::crcErr, true); return PL(c); }},
        {"LinPayload 8 with checksumErr", [] { A::LinPayload c; Bytes d = pat(8, 3); c.setData(d.data(), 8); c.setFlag(A::LinPayload::Flags::checksumErr, true); return PL(c); }},
        {"EthernetPayload 100 with fcsErr", [] { A::EthernetPayload c; Bytes d = pat(100, 4); c.setData(d.data(), 100); c.setFlag(A::EthernetPayload::Flags::fcsErr, true); return PL(c); }},
        {"CanPayload 8 whose type was reset to invalid afterwards", [] { A::CanPayload c; Bytes d = pat(8, 2); c.setData(d.data(), 8); PL p(c); p.setType(A::PayloadType(A::PayloadType::invalid)); return p; }},
        {"CanPayload 8, one byte differs, type reset to invalid", [] { A::CanPayload c; Bytes d = pat(8, 2); d[3] ^= 1; c.setData(d.data(), 8); PL p(c); p.setType(A::PayloadType(A::PayloadType::invalid)); return p; }},
    };
}
// Objects of the CONCRETE payload classes assigned to each other through the base class (Payload& = const Payload&), copied and
// moved as their own class, and compared across classes: the value is (type, bytes) whatever the static or dynamic class
static inline std::vector<std::pair<std::string, std::function<std::unique_ptr<A::Payload>()>>> concretePayloads()
{
    using UP = std::unique_ptr<A::Payload>;
    return {
        {"CanPayload 8", []() -> UP { auto c = std::make_unique<A::CanPayload>(); Bytes d = pat(8, 2); c->setId(0x123); c->setData(d.data(), 8); return c; }},
        {"CanFdPayload 12", []() -> UP { auto c = std::make_unique<A::CanFdPayload>(); Bytes d = pat(12, 3); c->setId(0x55); c->setData(d.data(), 12); return c; }},
        {"LinPayload 8 (same size as CAN 8 - 8)", []() -> UP { auto c = std::make_unique<A::LinPayload>(); Bytes d = pat(16, 4); c->setLinId(0x21); c->setData(d.data(), 16); return c; }},
        {"EthernetPayload 18", []() -> UP { auto c = std::make_unique<A::EthernetPayload>(); Bytes d = pat(18, 5); c->setData(d.data(), 18); return c; }},
        {"AnalogPayload 8", []() -> UP { auto c = std::make_unique<A::AnalogPayload>(); Bytes d = pat(8, 6); c->setData(d.data(), 8); return c; }},
        {"CaptureModulePayload", []() -> UP { auto c = std::make_unique<A::CaptureModulePayload>(); c->setUptime(5); c->setData("dev", "sn", "hw", "sw", {1, 2, 3}); return c; }},
        {"InterfacePayload", []() -> UP { auto c = std::make_unique<A::InterfacePayload>(); c->setInterfaceId(9); uint8_t s2[3] = {1, 2, 3}; c->setData(s2, 3, nullptr, 0); return c; }},
        {"default CanPayload", []() -> UP { return std::make_unique<A::CanPayload>(); }},
        {"default AnalogPayload (same size as a default CanPayload)", []() -> UP { return std::make_unique<A::AnalogPayload>(); }},
        {"plain Payload 24 bytes", []() -> UP { Bytes d = pat(24, 7); return std::make_unique<A::Payload>(A::PayloadType(0x01FEu), d.data(), d.size()); }},
    };
}

static inline void crossClassCases(W& w, const std::string& only = "")
{
    auto P = concretePayloads();
    for (size_t i = 0; i < P.size(); ++i)
        for (size_t j = 0; j < P.size(); ++j)
        {
            std::string cs = ofmt("k=xcls;a=%zu;b=%zu", i, j);
            if (!only.empty() && only != cs)
                continue;
            auto desc = [&] { return cs; };
            if (only.empty() && !w.begin_case(desc))
                continue;
            w.add(mc::C_TRACES, 1);
            w.add(mc::C_TRANS, 4);
            auto a = P[i].second(), b = P[j].second();
            const std::string wa = obsPl(*a);
            {
                auto t = P[j].second();
                *t = *a;   // Payload::operator=(const Payload&) on an object of another concrete class
                if (obsPl(*t) != wa) w.fail("value:copy-assign-through-base:target-differs-from-source", P[i].first + " -> " + P[j].first + ": {" + obsPl(*t) + "} source {" + wa + "}");
                if (obsPl(*a) != wa) w.fail("value:copy:source-changed:Payload", P[i].first);
                t->setRawPayloadType((uint8_t) (t->getRawPayloadType() ^ 0x11));
                if (obsPl(*a) != wa) w.fail("value:copy-shares-state-with-original:Payload", P[i].first);
                auto u = P[j].second();
                auto a2 = P[i].second();
                *u = std::move(*a2);
                if (obsPl(*u) != wa) w.fail("value:move-assign-through-base:target-differs-from-source", P[i].first + " -> " + P[j].first);
                A::Packet pk;
                pk.setPayload(*b);
                pk.setPayload(*a);   // the packet held a payload of another class
                if (obsPl(pk.getPayload()) != wa) w.fail("value:packet-payload-differs-from-the-one-set", P[i].first + " after " + P[j].first);
            }
            bool ab = *a == *b, ba = *b == *a, fe = obsPl(*a) == obsPl(*b);
            if (ab != ba)
                w.fail("equality:not-symmetric:Payload", P[i].first + " vs " + P[j].first);
            if (a->getLength() > 0 && b->getLength() > 0 && fe != ab)
                w.fail(fe ? "equality:equal-objects-compare-unequal:Payload" : "equality:different-objects-compare-equal:Payload", P[i].first + " vs " + P[j].first);
            w.outcome(mc::mix(mc::fnv_s("xcls"), mc::mix(mc::mix(i, j), ab)));
        }
}

// Equality between objects whose STATIC type is a concrete payload class (an overload for that class, if there is one, is chosen
// here and nowhere else): reflexive, a copy equals its source, != is the negation - also for payloads whose float fields hold
// NaN, infinities or negative zero (equality of payloads is equality of their bytes)
template <class T, class Mk>
static void typedEquality(W& w, const std::string& name, Mk mk)
{
    auto desc = [&] { return "k=typedeq;cls=" + name; };
    if (!w.begin_case(desc))
        return;
    T a = mk();
    T b(a);
    T c = mk();
    T d;
    d = a;
    w.add(mc::C_TRANS, 6);
    w.add(mc::C_TRACES, 1);
    if (!(a == a))
        w.fail("equality:not-reflexive:" + name, "x == x is false for an object compared through its own class");
    if (!(a == b) || !(b == a))
        w.fail("equality:equal-objects-compare-unequal:" + name, "a copy-constructed object compares unequal to its source");
    if (!(a == c) || !(a == d))
        w.fail("equality:equal-objects-compare-unequal:" + name, "a separately built / copy-assigned object with the same bytes compares unequal");
    const A::Payload& pa = a;
    const A::Payload& pb = b;
    if (!(pa == pb))
        w.fail("equality:equal-objects-compare-unequal:Payload", "the same two " + name + " objects compared through the base class");
    w.outcome(mc::mix(mc::fnv_s(name), 3));
}

static inline void typedEqualityCases(W& w)
{
    const float specials[] = {0.0f, -0.0f, 1.5f, std::numeric_limits<float>::quiet_NaN(), std::numeric_limits<float>::infinity(), -std::numeric_limits<float>::infinity(),
                              std::numeric_limits<float>::denorm_min()};
    int k = 0;
    for (float f : specials)
        for (int field = 0; field < 3; ++field)
            typedEquality<A::AnalogPayload>(w, ofmt("AnalogPayload(special float %d in field %d)", k++, field), [f, field] {
                A::AnalogPayload p;
                Bytes d = pat(8, 6);
                p.setData(d.data(), 8);
                if (field == 0) p.setSampleInterval(f);
                if (field == 1) p.setSampleOffset(f);
                if (field == 2) p.setSampleScalar(f);
                return p;
            });
    typedEquality<A::CanPayload>(w, "CanPayload", [] { A::CanPayload c; Bytes d = pat(8, 2); c.setId(0x123); c.setData(d.data(), 8); return c; });
    typedEquality<A::CanFdPayload>(w, "CanFdPayload", [] { A::CanFdPayload c; Bytes d = pat(12, 3); c.setId(0x55); c.setCrc(0x1ABCDE); c.setData(d.data(), 12); return c; });
    typedEquality<A::LinPayload>(w, "LinPayload", [] { A::LinPayload c; Bytes d = pat(8, 4); c.setLinId(0x21); c.setData(d.data(), 8); return c; });
    typedEquality<A::EthernetPayload>(w, "EthernetPayload", [] { A::EthernetPayload c; Bytes d = pat(18, 5); c.setData(d.data(), 18); return c; });
    typedEquality<A::CaptureModulePayload>(w, "CaptureModulePayload", [] { A::CaptureModulePayload c; c.setUptime(5); c.setData("dev", "", "hw ", " sw", {1, 2, 3}); return c; });
    typedEquality<A::InterfacePayload>(w, "InterfacePayload", [] { A::InterfacePayload c; c.setInterfaceId(9); uint8_t s2[3] = {1, 2, 3}; c.setData(s2, 3, nullptr, 0); return c; });
    typedEquality<A::CanPayload>(w, "default CanPayload", [] { return A::CanPayload(); });
    typedEquality<A::AnalogPayload>(w, "default AnalogPayload", [] { return A::AnalogPayload(); });
}

static inline std::vector<std::pair<std::string, std::function<TECMP::Payload()>>> tecmpPayloads()
{
    using PL = TECMP::Payload;
    return {
        {"default (invalid type, empty)", [] { return PL(); }},
        {"TECMP CanPayload 13 bytes", [] { Bytes d = pat(13, 5); return PL(TECMP::CanPayload(d.data(), 13)); }},
        {"TECMP CanPayload 13 bytes, one differs", [] { Bytes d = pat(13, 5); d[9] ^= 4; return PL(TECMP::CanPayload(d.data(), 13)); }},
        {"TECMP LinPayload 13 bytes (same bytes, other type)", [] { Bytes d = pat(13, 5); return PL(TECMP::LinPayload(d.data(), 13)); }},
        {"TECMP CanPayload default", [] { return PL(TECMP::CanPayload()); }},
        {"TECMP CanPayload 13 bytes, first byte differs", [] { Bytes d = pat(13, 5); d[0] ^= 0x80; return PL(TECMP::CanPayload(d.data(), 13)); }},
        {"TECMP CanPayload 13 bytes, last byte differs", [] { Bytes d = pat(13, 5); d[12] ^= 0x01; return PL(TECMP::CanPayload(d.data(), 13)); }},
        {"one byte", [] { uint8_t b = 7; return PL(TECMP::PayloadType(TECMP::PayloadType::can), &b, 1); }},
        {"one byte, other value", [] { uint8_t b = 8; return PL(TECMP::PayloadType(TECMP::PayloadType::can), &b, 1); }},
        {"empty, type can", [] { return PL(TECMP::PayloadType(TECMP::PayloadType::can), nullptr, 0); }},
    };
}

}  // namespace c14

static int runC14(mc::Run& run, const mc::Options& opt)
{
    using namespace c14;
    auto P = pool();
    run.rule = ofmt("pool of %zu packets (no payload, zero-length payloads of three types, equal-looking pairs, typed, decoder-produced, distinctive headers): every ordered pair "
                    "(source, target) x {copy-construct, move-construct, copy-assign, move-assign}, self copy/move assignment, every sequence of two assignments into every "
                    "target, equality on every ordered pair (reflexive, symmetric, agrees with field-by-field for non-empty payloads, != is the negation); the same for "
                    "all ordered pairs of 19 Payload and 10 TECMP::Payload objects; observation = all getters + payload presence/type/bytes, under ASan in forked workers; "
                    "distinct = distinct (operation, source, target / verdict) outcomes",
                    P.size());
    const std::vector<std::string> ops = {"copy-construct", "move-construct", "copy-assign", "move-assign"};
    run.replay_case = [P](W& w, const std::string& cs) {
        auto kv = mc::kv_parse(cs);
        auto n = [&](const char* k) { return (size_t) atoi(kv[k].c_str()); };
        if (kv["k"] == "op") opCase(w, P, kv["op"], n("s"), n("t"));
        else if (kv["k"] == "two") twoAssign(w, P, n("t"), n("a"), n("b"));
        else if (kv["k"] == "eq") eqCase(w, P, n("a"), n("b"));
        else if (kv["k"] == "hist")
        {
            std::vector<size_t> sub, ops;
            for (auto& x : mc::split(kv["sub"], ',')) sub.push_back((size_t) atoi(x.c_str()));
            for (auto& x : mc::split(kv["ops"], ',')) ops.push_back((size_t) atoi(x.c_str()));
            histCase(w, P, sub, n("t"), ops);
        }
        else if (kv["k"] == "xcls") crossClassCases(w, cs);
        else if (kv["k"] == "typedeq") typedEqualityCases(w);
        else if (kv["k"] == "abort") abortedCopy(w, P, n("s"), n("t"), atoi(kv["n"].c_str()), kv["op"] == "construct");
        else if (kv["k"] == "pl")
        {
            if (kv["cls"] == "Payload") payloadCases<ASAM::CMP::Payload>(w, "Payload", asamPayloads(), cs);
            else payloadCases<TECMP::Payload>(w, "TECMP::Payload", tecmpPayloads(), cs);
        }
    };
    if (!opt.case_file.empty())
    {
        std::ifstream in(opt.case_file);
        std::string cs;
        std::getline(in, cs);
        return run.run_single(cs);
    }
    run.round("every ordered (source, target) pair x 4 value operations + self assignments", P.size(), [&](W& w, uint64_t si) {
        for (size_t ti = 0; ti < P.size(); ++ti)
            for (auto& op : ops)
            {
                if ((op == "copy-construct" || op == "move-construct") && ti != 0 && op == "copy-construct")
                    continue;   // the target's former value is irrelevant for copy construction
                auto desc = [&] { return ofmt("k=op;op=%s;s=%zu;t=%zu", op.c_str(), (size_t) si, ti); };
                if (!w.begin_case(desc))
                    continue;
                opCase(w, P, op, si, ti);
                w.add(mc::C_TRACES, 1);
                w.add(mc::C_STATES, 1);
            }
        for (const char* op : {"self-copy-assign", "self-move-assign"})
        {
            auto desc = [&] { return ofmt("k=op;op=%s;s=%zu;t=%zu", op, (size_t) si, (size_t) si); };
            if (!w.begin_case(desc))
                continue;
            opCase(w, P, op, si, si);
            w.add(mc::C_TRACES, 1);
            w.add(mc::C_STATES, 1);
        }
    });
    run.round("every sequence of two assignments into every target", P.size() * P.size(), [&](W& w, uint64_t o) {
        size_t ti = o / P.size(), ai = o % P.size();
        for (size_t bi = 0; bi < P.size(); ++bi)
        {
            auto desc = [&] { return ofmt("k=two;t=%zu;a=%zu;b=%zu", ti, ai, bi); };
            if (!w.begin_case(desc))
                continue;
            twoAssign(w, P, ti, ai, bi);
            w.add(mc::C_TRACES, 1);
            w.add(mc::C_STATES, 2);
        }
    });
    {
        // sharp sub-pool: one member per way a packet can hold its payload (none, zero-length, generic, concrete class via setPayload,
        // decoder-produced, decoder-produced and edited in place) + two that differ in one header field only
        std::vector<size_t> sharp;
        for (size_t i = 0; i < P.size(); ++i)
            for (const char* nm : {"default(no payload)", "zero-length CAN payload", "zero-length LIN payload", "CAN 8 bytes", "CAN 8 bytes, last data byte differs", "Ethernet 1500 bytes",
                                   "capture-module status", "decoder-produced LIN packet", "decoder-produced CAN packet, crc error flag set in place", "all header fields distinctive",
                                   "... payload one byte longer", "one-byte payload"})
                if (P[i].name == nm)
                    sharp.push_back(i);
        std::vector<size_t> all;
        for (size_t i = 0; i < P.size(); ++i)
            all.push_back(i);
        const bool thorough = opt.tier == "thorough";
        struct Plan { const std::vector<size_t>* sub; size_t depth; const char* what; };
        std::vector<Plan> plans = {{&sharp, thorough ? (size_t) 4 : (size_t) 3, "sharp sub-pool"}, {&all, thorough ? (size_t) 3 : (size_t) 2, "whole pool"}};
        for (auto& pl : plans)
        {
            const std::vector<size_t>& sub = *pl.sub;
            const size_t nops = histOps(sub.size()), depth = pl.depth;
            std::string subs;
            for (size_t i : sub)
                subs += (subs.empty() ? "" : ",") + std::to_string(i);
            uint64_t inner = 1;
            for (size_t d = 1; d < depth; ++d)
                inner *= nops;
            run.round(ofmt("every history of %zu value operations (copy-assign / move-assign / swap from every member, self assignments, temporary round trip) on every target of the %s (%zu members)", depth, pl.what, sub.size()),
                      sub.size() * nops, [&, depth, nops, inner, subs](W& w, uint64_t o) {
                          size_t ti = o / nops, first = o % nops;
                          std::vector<size_t> ops(depth);
                          for (uint64_t r = 0; r < inner; ++r)
                          {
                              ops[0] = first;
                              uint64_t x = r;
                              for (size_t d = 1; d < depth; ++d)
                              {
                                  ops[d] = x % nops;
                                  x /= nops;
                              }
                              auto desc = [&] {
                                  std::string os;
                                  for (size_t q : ops)
                                      os += (os.empty() ? "" : ",") + std::to_string(q);
                                  return ofmt("k=hist;sub=%s;t=%zu;ops=%s", subs.c_str(), ti, os.c_str());
                              };
                              if (!w.begin_case(desc))
                                  continue;
                              histCase(w, P, sub, ti, ops);
                              w.add(mc::C_TRACES, 1);
                              w.add(mc::C_STATES, depth);
                          }
                      });
        }
    }
    run.round("copy construction / copy assignment aborted by the failure of its n-th allocation (every n) and repeated: every ordered (source, target) pair", P.size(), [&](W& w, uint64_t si) {
        for (size_t ti = 0; ti < P.size(); ++ti)
            for (int construct = 0; construct < 2; ++construct)
            {
                if (construct && ti != 0)
                    continue;
                for (int n = 1; n < 40; ++n)
                {
                    {
                        W probe;
                        probe.single = true;
                        if (!abortedCopy(probe, P, si, ti, n, construct != 0))
                            break;
                    }
                    auto desc = [&] { return ofmt("k=abort;op=%s;s=%zu;t=%zu;n=%d", construct ? "construct" : "assign", (size_t) si, ti, n); };
                    if (!w.begin_case(desc))
                        continue;
                    abortedCopy(w, P, si, ti, n, construct != 0);
                    w.add(mc::C_TRACES, 1);
                    w.add(mc::C_STATES, 2);
                }
            }
    });
    run.round("equality on every ordered pair", P.size(), [&](W& w, uint64_t ai) {
        for (size_t bi = 0; bi < P.size(); ++bi)
        {
            auto desc = [&] { return ofmt("k=eq;a=%zu;b=%zu", (size_t) ai, bi); };
            if (!w.begin_case(desc))
                continue;
            eqCase(w, P, ai, bi);
            w.add(mc::C_TRACES, 1);
            w.add(mc::C_STATES, 1);
        }
    });
    run.round("objects of 10 concrete payload classes / states: all ordered pairs assigned through the base class, set into a packet holding the other, compared", 1,
              [&](W& w, uint64_t) { crossClassCases(w); });
    run.round("equality through the concrete payload classes (incl. analog payloads whose float fields hold NaN / infinities / -0)", 1, [&](W& w, uint64_t) { typedEqualityCases(w); });
    run.round("Payload and TECMP::Payload: all ordered pairs x value operations + equality", 2, [&](W& w, uint64_t o) {
        if (o == 0)
            payloadCases<ASAM::CMP::Payload>(w, "Payload", asamPayloads());
        else
            payloadCases<TECMP::Payload>(w, "TECMP::Payload", tecmpPayloads());
    });
    return run.finish();
}
