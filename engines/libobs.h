// Observation of library objects through their public getters only.
#pragma once
#include <asam_cmp/packet.h>
#include <asam_cmp/payload.h>

#include <cstdint>
#include <string>
#include <vector>

#include "mc/harness.h"

namespace obs {

using ASAM::CMP::Packet;
using ASAM::CMP::Payload;
using Bytes = std::vector<uint8_t>;

struct PObs
{
    uint8_t version = 0;
    uint16_t dev = 0;
    uint8_t stream = 0;
    uint16_t seq = 0;
    uint64_t ts = 0;
    uint32_t ifid = 0;
    uint16_t vid = 0;
    uint8_t flags = 0;
    uint8_t segType = 0;
    uint8_t msgType = 0;
    uint8_t ptype = 0;
    uint32_t fullType = 0;
    bool valid = false;
    uint32_t len = 0;
    Bytes bytes;
};

// The packet must carry a payload (every packet a decoder returns does; property C02).
inline PObs observe(const Packet& p)
{
    PObs o;
    o.version = p.getVersion();
    o.dev = p.getDeviceId();
    o.stream = p.getStreamId();
    o.seq = p.getSequenceCounter();
    o.ts = p.getTimestamp();
    o.ifid = p.getInterfaceId();
    o.vid = p.getVendorId();
    o.flags = p.getCommonFlags();
    o.segType = (uint8_t) p.getSegmentType();
    o.msgType = (uint8_t) p.getMessageType();
    o.ptype = p.getPayloadType();
    o.fullType = p.getPayload().getType().getType();
    o.valid = p.isValid();
    o.len = p.getPayloadLength();
    const Payload& pl = p.getPayload();
    const uint8_t* raw = pl.getRawPayload();
    o.bytes.assign(raw, raw + pl.getLength());
    return o;
}

inline uint64_t digest(const PObs& o)
{
    uint64_t h = mc::fnv(o.bytes.data(), o.bytes.size());
    uint64_t f[] = {o.version, o.dev, o.stream, o.seq, o.ts, o.ifid, o.vid, o.flags, o.segType, o.msgType, o.ptype, o.fullType, o.valid, o.len};
    return mc::fnv(f, sizeof f, h);
}

inline std::string show(const PObs& o)
{
    char b[400];
    snprintf(b, sizeof b, "{ver=%u dev=0x%x str=%u seq=%u ts=0x%llx if=0x%x vid=0x%x fl=0x%02x seg=%u mt=0x%x pt=0x%x valid=%d len=%u bytes=%s%s}",
             o.version, o.dev, o.stream, o.seq, (unsigned long long) o.ts, o.ifid, o.vid, o.flags, o.segType, o.msgType, o.ptype, o.valid,
             o.len, mc::hex(o.bytes.data(), std::min<size_t>(o.bytes.size(), 24)).c_str(), o.bytes.size() > 24 ? ".." : "");
    return b;
}

}  // namespace obs
