// Engine `obj`: C11 (setters change their field and nothing else), C12 (wire layout), C13 (payload
// builders), C14 (packets and payloads are values).
#define MC_ALLOCFAULT_IMPL
#include "mc/allocfault.h"
#include "engines/obj_c11.h"
#include "engines/obj_c13.h"
#include "engines/obj_c14.h"

namespace A = ASAM::CMP;

static tbl::Cls<A::Packet> packetCls()
{
    using T = A::Packet;
    tbl::Cls<T> c;
    c.name = "Packet";
    c.makeBg = [](int bg) {
        T p;
        Bytes d = {1, 2, 3, 4, 5};
        p.setPayload(A::Payload(A::PayloadType(A::CmpHeader::MessageType::data, 0xFE), d.data(), d.size()));
        if (bg == 2)
        {
            p.setVersion(0xFF); p.setDeviceId(0xFFFF); p.setStreamId(0xFF); p.setSequenceCounter(0xFFFF); p.setTimestamp(~0ull); p.setInterfaceId(0xFFFFFFFFu);
            p.setVendorId(0xFFFF); p.setCommonFlags(0xFF); p.setSegmentType(A::MessageHeader::SegmentType::lastSegment);
        }
        else if (bg == 3)
        {
            p.setVersion(0x11); p.setDeviceId(0x2233); p.setStreamId(0x44); p.setSequenceCounter(0x5566); p.setTimestamp(0x778899AABBCCDDEEull); p.setInterfaceId(0x0F1E2D3Cu);
            p.setVendorId(0x4B5A); p.setCommonFlags(0x69); p.setSegmentType(A::MessageHeader::SegmentType::intermediarySegment);
        }
        else if (bg == 1)
        {
            p.setVersion(0);
        }
        return p;
    };
    c.fields = {
        FLD(T, "Version", 8, -1, 0, 0, o.setVersion((uint8_t) v), o.getVersion()),
        FLD(T, "DeviceId", 16, -1, 0, 0, o.setDeviceId((uint16_t) v), o.getDeviceId()),
        FLD(T, "StreamId", 8, -1, 0, 0, o.setStreamId((uint8_t) v), o.getStreamId()),
        FLD(T, "SequenceCounter", 16, -1, 0, 0, o.setSequenceCounter((uint16_t) v), o.getSequenceCounter()),
        FLD(T, "Timestamp", 64, -1, 0, 0, o.setTimestamp(v), o.getTimestamp()),
        FLD(T, "InterfaceId", 32, -1, 0, 0, o.setInterfaceId((uint32_t) v), o.getInterfaceId()),
        FLD(T, "VendorId", 16, -1, 0, 0, o.setVendorId((uint16_t) v), o.getVendorId()),
        FLD(T, "CommonFlags", 8, -1, 0, 0, o.setCommonFlags((uint8_t) v), o.getCommonFlags()),
        FLD(T, "SegmentType", 2, -1, 0, 0, o.setSegmentType(static_cast<A::MessageHeader::SegmentType>(v << 2)), (uint8_t) o.getSegmentType() >> 2),
        FLD(T, "PayloadLength(read-only)", 1, -1, 0, 0, (void) o, o.getPayloadLength()),
        FLD(T, "PayloadType(read-only)", 1, -1, 0, 0, (void) o, o.getPayloadType()),
        FLD(T, "PayloadBytes(read-only)", 1, -1, 0, 0, (void) o, mc::fnv(o.getPayload().getRawPayload(), o.getPayload().getLength())),
    };
    const std::pair<const char*, uint8_t> flags[] = {{"recalc", 0x01}, {"insync", 0x02}, {"diOnIf", 0x10}, {"overflow", 0x20}, {"errorInPayload", 0x40}};
    for (auto& f : flags)
    {
        uint8_t m = f.second;
        tbl::Field<T> fl{std::string("CommonFlag(") + f.first + ")", 1, -1, 0, 0, [m](T& o, uint64_t v) { o.setCommonFlag(static_cast<A::MessageHeader::CommonFlags>(m), v != 0); },
                         [m](const T& o) -> uint64_t { return o.getCommonFlag(static_cast<A::MessageHeader::CommonFlags>(m)); }, {}, false, {"CommonFlags"}};
        c.fields.push_back(fl);
    }
    return c;
}

// the three read-only pseudo fields of Packet must not be "set"
static bool isReadOnly(const std::string& n) { return n.find("(read-only)") != std::string::npos; }

// Generic Payload: type accessors must not touch the data bytes
static tbl::Cls<A::Payload> genericPayloadCls()
{
    using T = A::Payload;
    tbl::Cls<T> c;
    c.name = "Payload";
    c.makeBg = [](int bg) {
        Bytes d = bgImage(7, bg == 0 ? 3 : bg);
        return T(A::PayloadType(bg == 2 ? 0xFFFFu : (bg == 3 ? 0x1234u : 0x0101u)), d.data(), d.size());
    };
    c.fields = {
        FLD(T, "Type", 32, -1, 0, 0, o.setType(A::PayloadType((uint32_t) v)), o.getType().getType()),
        FLD(T, "MessageType", 8, -1, 0, 0, o.setMessageType(static_cast<A::CmpHeader::MessageType>(v)), o.getMessageType()),
        FLD(T, "RawPayloadType", 8, -1, 0, 0, o.setRawPayloadType((uint8_t) v), o.getRawPayloadType()),
        FLD(T, "Length(read-only)", 1, -1, 0, 0, (void) o, o.getLength()),
        FLD(T, "Bytes(read-only)", 1, -1, 0, 0, (void) o, mc::fnv(o.getRawPayload(), o.getLength())),
    };
    c.fields[0].aliases = {"MessageType", "RawPayloadType"};
    return c;
}

// TECMP::Payload: type accessors must not touch the data bytes
static tbl::Cls<TECMP::Payload> tecmpGenericPayloadCls()
{
    using T = TECMP::Payload;
    tbl::Cls<T> c;
    c.name = "TECMP::Payload";
    c.makeBg = [](int bg) {
        Bytes d = bgImage(7, bg == 0 ? 3 : bg);
        return T(TECMP::PayloadType(bg == 2 ? 0xFFFFu : (bg == 3 ? 0x1234u : 0x0302u)), d.data(), d.size());
    };
    c.fields = {
        FLD(T, "Type", 32, -1, 0, 0, o.setType(TECMP::PayloadType((uint32_t) v)), o.getType().getType()),
        FLD(T, "MessageType", 8, -1, 0, 0, o.setMessageType(static_cast<TECMP::CmpHeader::MessageType>(v)), o.getMessageType()),
        FLD(T, "RawPayloadType", 8, -1, 0, 0, o.setRawPayloadType((uint8_t) v), o.getRawPayloadType()),
        FLD(T, "Length(read-only)", 1, -1, 0, 0, (void) o, o.getLength()),
        FLD(T, "Bytes(read-only)", 1, -1, 0, 0, (void) o, mc::fnv(o.getRawPayload(), o.getLength())),
    };
    c.fields[0].aliases = {"MessageType", "RawPayloadType"};
    return c;
}

// derived TECMP accessors: getVoltage, version strings, LinPayload::setData
static void c12TecmpDerived(W& w)
{
    for (int whole = 0; whole < 256; whole += 5)
        for (int frac = 0; frac < 256; frac += 3)
        {
            auto desc = [&] { return ofmt("k=c12tecmp;whole=%d;frac=%d", whole, frac); };
            if (!w.begin_case(desc))
                continue;
            TECMP::CaptureModulePayload p;
            p.setVoltageWhole((uint8_t) whole);
            p.setVoltageFraction((uint8_t) frac);
            p.setSwVersionMajor((uint8_t) whole); p.setSwVersionMinor((uint8_t) frac); p.setSwVersionPatch((uint8_t) (whole ^ frac));
            p.setHwVersionMajor((uint8_t) frac); p.setHwVersionMinor((uint8_t) whole);
            float want = (float) whole + (float) frac / 100.0f;
            if (p.getVoltage() != want)
                w.fail("layout:TECMP::CaptureModulePayload::getVoltage", ofmt("whole %d fraction %d: getVoltage() = %f", whole, frac, p.getVoltage()));
            if (p.getSwVersion() != ofmt("v%d.%d.%d", whole, frac, whole ^ frac) || p.getHwVersion() != ofmt("v%d.%d", frac, whole))
                w.fail("layout:TECMP::CaptureModulePayload::version-strings", "sw '" + p.getSwVersion() + "' hw '" + p.getHwVersion() + "'");
            w.add(mc::C_TRACES, 1);
            w.add(mc::C_TRANS, 1);
        }
    for (int prior = 0; prior < 3; ++prior)
        for (int len = 0; len < 256; ++len)
        {
            auto desc = [&] { return ofmt("k=c12tecmp;linlen=%d;prior=%d", len, prior); };
            if (!w.begin_case(desc))
                continue;
            TECMP::LinPayload p;
            p.setPid(0x5A);
            Bytes q = bgImage((size_t) (prior == 1 ? len / 2 : len + 9), 3);
            if (prior)
                p.setData(q.data(), (uint8_t) std::min<size_t>(q.size(), 255));
            Bytes d = bgImage((size_t) len, 2);
            for (auto& x : d)
                x ^= 0x3C;
            p.setData(d.data(), (uint8_t) len);
            Bytes e = {0x5A, (uint8_t) len};
            e.insert(e.end(), d.begin(), d.end());
            Bytes r(p.getRawPayload(), p.getRawPayload() + p.getLength());
            if (r != e || p.getDataLength() != len || p.getPid() != 0x5A || (len && memcmp(p.getData(), d.data(), (size_t) len) != 0))
                w.fail("builder:TECMP::LinPayload::setData", ofmt("setData(%d bytes) after prior contents %d: raw %s", len, prior, mc::hex(r.data(), std::min<size_t>(r.size(), 24)).c_str()));
            w.add(mc::C_TRACES, 1);
            w.add(mc::C_TRANS, 1);
        }
}

// C12 for the variable-length sections of the two status payloads: images laid out by hand from the protocol layout (16-bit
// big-endian length prefix, strings NUL-terminated and padded to even, stream ids padded to even) are read through the typed
// getters; one section at a time takes the lengths around the byte / sign boundaries of its prefix
static void c12Sections(W& w)
{
    const size_t lens[] = {0, 1, 2, 3, 124, 125, 126, 127, 128, 200, 252, 253, 254, 255, 256, 382, 383, 384, 1000, 32766, 32767, 32768};
    for (int sec = 0; sec < 5; ++sec)
        for (size_t len : lens)
        {
            auto desc = [&] { return ofmt("k=c12sec;cls=cm;sec=%d;len=%zu", sec, len); };
            if (!w.begin_case(desc))
                continue;
            ref::CmF f;
            f.uptime = 0x0102030405060708ull;
            std::string str[4];
            for (int i = 0; i < 4; ++i)
            {
                str[i] = std::string(i == sec ? len : (size_t) (i + 1), (char) ('a' + i));
                for (size_t q = 0; q < str[i].size(); ++q)
                    str[i][q] = (char) ('a' + (q + i) % 26);
                f.s[i] = ref::strSection(str[i]);
            }
            size_t vlen = sec == 4 ? len : 3;
            f.s[4].declared = (uint16_t) vlen;
            f.s[4].bytes = bgImage(vlen, 3);
            Bytes img = ref::cmPayload(f);
            A::CaptureModulePayload p(img.data(), img.size());
            std::string_view got[4] = {p.getDeviceDescription(), p.getSerialNumber(), p.getHardwareVersion(), p.getSoftwareVersion()};
            const char* names[4] = {"getDeviceDescription", "getSerialNumber", "getHardwareVersion", "getSoftwareVersion"};
            for (int i = 0; i < 4; ++i)
                if (std::string(got[i]) != str[i])
                    w.fail(std::string("layout:raw-read-differs-from-wire-value:CaptureModulePayload::") + names[i],
                           ofmt("section %d holds %zu characters (length prefix %u), the getter returns %zu", i, str[i].size(), f.s[i].declared, got[i].size()));
            if (p.getVendorDataLength() != vlen)
                w.fail("layout:raw-read-differs-from-wire-value:CaptureModulePayload::getVendorDataLength", ofmt("length prefix %zu, getter %u", vlen, p.getVendorDataLength()));
            else if (vlen && (p.getVendorData() != p.getRawPayload() + (img.size() - vlen) || memcmp(p.getVendorData(), f.s[4].bytes.data(), vlen) != 0))
                w.fail("layout:raw-read-differs-from-wire-value:CaptureModulePayload::getVendorData", "vendor data view is not the last section of the image");
            w.add(mc::C_TRACES, 1);
            w.add(mc::C_TRANS, 1);
            w.outcome(mc::mix(sec, len));
        }
    for (int sec = 0; sec < 2; ++sec)
        for (size_t len : lens)
        {
            auto desc = [&] { return ofmt("k=c12sec;cls=if;sec=%d;len=%zu", sec, len); };
            if (!w.begin_case(desc))
                continue;
            ref::IfF f;
            f.ifid = 0x01020304;
            size_t sc = sec == 0 ? len : 3, vl = sec == 1 ? len : 5;
            f.streamDeclared = (uint16_t) sc;
            f.streams = bgImage(sc, 3);
            if (sc % 2)
                f.streams.push_back(0);
            f.vendorDeclared = (uint16_t) vl;
            f.vendor = bgImage(vl, 2);
            Bytes img = ref::ifPayload(f);
            A::InterfacePayload p(img.data(), img.size());
            if (p.getStreamIdsCount() != sc || (sc && memcmp(p.getStreamIds(), f.streams.data(), sc) != 0))
                w.fail("layout:raw-read-differs-from-wire-value:InterfacePayload::getStreamIds", ofmt("%zu stream ids on the wire, getter reports %u", sc, p.getStreamIdsCount()));
            if (p.getVendorDataLength() != vl || (vl && memcmp(p.getVendorData(), f.vendor.data(), vl) != 0))
                w.fail("layout:raw-read-differs-from-wire-value:InterfacePayload::getVendorData", ofmt("%zu vendor bytes on the wire, getter reports %u", vl, p.getVendorDataLength()));
            w.add(mc::C_TRACES, 1);
            w.add(mc::C_TRANS, 1);
            w.outcome(mc::mix(10 + sec, len));
        }
}

// C11 for the one Packet field the table cannot hold: the payload. Writing it (setPayload) from ANY prior state - the packet held
// nothing, or any other payload, in particular one of the same length and another type, or the same type and another length - must
// read back as the payload written and leave every header field alone. Compared with a fresh packet that was given the same
// header and only the new payload.
static void c11SetPayload(W& w)
{
    auto pool = c14::asamPayloads();
    auto header = [](A::Packet& p) {
        p.setVersion(0x11); p.setDeviceId(0x2233); p.setStreamId(0x44); p.setSequenceCounter(0x5566); p.setTimestamp(0x778899AABBCCDDEEull); p.setInterfaceId(0x0F1E2D3C);
        p.setVendorId(0x4B5A); p.setCommonFlags(0x23);
    };
    for (int prior = -1; prior < (int) pool.size(); ++prior)
        for (size_t q = 0; q < pool.size(); ++q)
            for (int order = 0; order < 2; ++order)
            {
                auto desc = [&] { return ofmt("k=c11setpayload;prior=%d;new=%zu;order=%d", prior, q, order); };
                if (!w.begin_case(desc))
                    continue;
                A::Packet p, fresh;
                if (order == 0)
                    header(p);
                if (prior >= 0)
                    p.setPayload(pool[(size_t) prior].second());
                if (order == 1)
                    header(p);   // header fields written while the earlier payload was held
                A::Payload nq = pool[q].second();
                p.setPayload(nq);
                header(fresh);
                fresh.setPayload(nq);
                std::string got = c14::observe(p, true), want = c14::observe(fresh, true);
                // the header fields are what was written, whatever the payload is or says
                if (p.getVersion() != 0x11 || p.getDeviceId() != 0x2233 || p.getStreamId() != 0x44 || p.getSequenceCounter() != 0x5566 || p.getTimestamp() != 0x778899AABBCCDDEEull ||
                    p.getInterfaceId() != 0x0F1E2D3C || p.getVendorId() != 0x4B5A || p.getCommonFlags() != 0x23)
                    w.fail("side-effect:Packet::setPayload", "setPayload('" + pool[q].first + "') changed a header field of the packet: {" + got + "}");
                // ... and handing the packet its OWN payload (a reference into itself) changes nothing
                p.setPayload(p.getPayload());
                if (c14::observe(p, true) != got)
                    w.fail("set-get-mismatch:Packet::Payload:own-payload", "setPayload(getPayload()) on a packet holding '" + pool[q].first + "' changed it: {" + c14::observe(p, true) + "} was {" + got + "}");
                if (got != want)
                    w.fail("set-get-mismatch:Packet::Payload", "setPayload('" + pool[q].first + "') on a packet that held " + (prior < 0 ? std::string("nothing") : "'" + pool[(size_t) prior].first + "'") +
                                                                   ": {" + got + "} a fresh packet reads {" + want + "}");
                w.add(mc::C_TRACES, 1);
                w.add(mc::C_TRANS, 2);
                w.outcome(mc::mix(mc::fnv_s(got), 11));
            }
}

// C12 for the library's NAMED constants: users write Flags::crcErr or PayloadType::can, never 0x0001 or 0x0101, so the numeric value
// behind each name is part of the wire layout. Expected values are stated here from the protocol tables (ASAM CMP message / payload
// types and flag bits, TECMP message / data types), independently of the headers.
static void c12Constants(W& w)
{
    struct K { const char* name; uint64_t got, want; };
    using CF = A::CanPayloadBase::Flags;
    using EF = A::EthernetPayload::Flags;
    using LF = A::LinPayload::Flags;
    using MF = A::MessageHeader::CommonFlags;
    using ST = A::MessageHeader::SegmentType;
    using MT = A::CmpHeader::MessageType;
    using IS = A::InterfacePayload::InterfaceStatus;
    using PT = A::PayloadType;
    using TM = TECMP::CmpHeader::MessageType;
    using TD = TECMP::CmpHeader::DataType;
    using TP = TECMP::PayloadType;
#define KC(e, v) {#e, (uint64_t) (e), (uint64_t) (v)}
    const std::vector<K> ks = {
        KC(CF::crcErr, 1u << 0), KC(CF::ackErr, 1u << 1), KC(CF::passiveAckErr, 1u << 2), KC(CF::activeAckErr, 1u << 3), KC(CF::ackDelErr, 1u << 4), KC(CF::formErr, 1u << 5),
        KC(CF::stuffErr, 1u << 6), KC(CF::crcDelErr, 1u << 7), KC(CF::eofErr, 1u << 8), KC(CF::bitErr, 1u << 9), KC(CF::r0, 1u << 10), KC(CF::rsvd, 1u << 10), KC(CF::srrDom, 1u << 11),
        KC(CF::brs, 1u << 12), KC(CF::esi, 1u << 13),
        KC(EF::fcsErr, 1u << 0), KC(EF::frameShorterThan64b, 1u << 1), KC(EF::txPortDown, 1u << 2), KC(EF::collision, 1u << 3), KC(EF::frameTooLongErr, 1u << 4), KC(EF::phyErr, 1u << 5),
        KC(EF::frameTruncated, 1u << 6), KC(EF::fcsSupport, 1u << 7),
        KC(LF::checksumErr, 1u << 0), KC(LF::collisionErr, 1u << 1), KC(LF::parityErr, 1u << 2), KC(LF::noSlaveRespErr, 1u << 3), KC(LF::syncErr, 1u << 4), KC(LF::framingErr, 1u << 5),
        KC(LF::shortDomErr, 1u << 6), KC(LF::longDomErr, 1u << 7), KC(LF::wup, 1u << 8),
        KC(MF::recalc, 0x01), KC(MF::insync, 0x02), KC(MF::seg, 0x0C), KC(MF::diOnIf, 0x10), KC(MF::overflow, 0x20), KC(MF::errorInPayload, 0x40),
        KC(ST::unsegmented, 0x00), KC(ST::firstSegment, 0x04), KC(ST::intermediarySegment, 0x08), KC(ST::lastSegment, 0x0C),
        KC(MT::undefined, 0), KC(MT::data, 1), KC(MT::control, 2), KC(MT::status, 3), KC(MT::vendor, 0xFF),
        KC(IS::linkStatusDown, 0), KC(IS::linkStatusUp, 1), KC(IS::disabled, 2),
        KC(PT::invalid, 0), KC(PT::can, 0x0101), KC(PT::canFd, 0x0102), KC(PT::lin, 0x0103), KC(PT::flexRay, 0x0104), KC(PT::digital, 0x0105), KC(PT::uartRs232, 0x0106),
        KC(PT::analog, 0x0107), KC(PT::ethernet, 0x0108), KC(PT::spi, 0x0109), KC(PT::i2c, 0x010A), KC(PT::gigeVision, 0x010B), KC(PT::mipiCsi2dPhy, 0x010C), KC(PT::userDefined, 0x01FF),
        KC(PT::cmStatMsg, 0x0301), KC(PT::ifStatMsg, 0x0302), KC(PT::confStatMsg, 0x0303), KC(PT::dleStatMsg, 0x0304), KC(PT::tsleStatMsg, 0x0305), KC(PT::vendorStatMsg, 0x03FF),
        KC(TM::control, 0x00), KC(TM::cmStatus, 0x01), KC(TM::busStatus, 0x02), KC(TM::data, 0x03), KC(TM::configStatus, 0x04), KC(TM::replayData, 0x0A),
        KC(TD::can, 0x02), KC(TD::canFd, 0x03), KC(TD::lin, 0x04), KC(TD::flexRay, 0x08), KC(TD::uartRs232, 0x10), KC(TD::analog, 0x20), KC(TD::ethernet, 0x80),
        KC(TP::control, 0x0000), KC(TP::cmStatMsg, 0x0100), KC(TP::ifStatMsg, 0x0200), KC(TP::confStatMsg, 0x0400), KC(TP::can, 0x0302), KC(TP::canFd, 0x0303), KC(TP::lin, 0x0304),
        KC(TP::flexRay, 0x0308), KC(TP::uartRs232, 0x0310), KC(TP::analog, 0x0320), KC(TP::ethernet, 0x0380),
    };
#undef KC
    for (auto& k : ks)
    {
        auto desc = [&] { return std::string("k=c12const;n=") + k.name; };
        if (!w.begin_case(desc))
            continue;
        if (k.got != k.want)
            w.fail("layout:named-constant-differs-from-protocol-value", ofmt("%s is 0x%llx, the protocol assigns 0x%llx", k.name, (unsigned long long) k.got, (unsigned long long) k.want));
        w.add(mc::C_TRACES, 1);
        w.add(mc::C_TRANS, 1);
        w.outcome(mc::mix(mc::fnv_s(k.name), k.got));
    }
}

// C12 for Packet: the two serialisers against hand-laid-out images
static void c12Packet(W& w)
{
    const uint8_t mts[] = {1, 2, 3, 0xFF, 0x07};
    const uint64_t tss[] = {0, 0x0102030405060708ull, ~0ull, 0x8000000000000001ull};
    const uint32_t ifs[] = {0, 0x01020304u, 0xFFFFFFFFu, 0x80000001u};
    const uint16_t vids[] = {0, 0x0102, 0xFFFF, 0x8001};
    const uint8_t fls[] = {0, 0x01, 0x02, 0x04, 0x08, 0x10, 0x20, 0x40, 0x80, 0xFF, 0xA5};
    for (uint8_t mt : mts)
        for (size_t len : {(size_t) 0, (size_t) 1, (size_t) 258, (size_t) 65535})
            for (int k = 0; k < 11; ++k)
            {
                auto desc = [&] { return ofmt("k=c12pkt;mt=%x;len=%zu;k=%d", mt, len, k); };
                if (!w.begin_case(desc))
                    continue;
                A::Packet p;
                Bytes d(len, 0x5A);
                uint8_t pt = (uint8_t) (0xF0 + k);
                p.setPayload(A::Payload(A::PayloadType(static_cast<A::CmpHeader::MessageType>(mt), pt), d.data(), d.size()));
                uint8_t ver = (uint8_t) (k * 23 + 1);
                uint16_t dev = (uint16_t) (k * 0x1111 + 0x0102), seq = (uint16_t) (0xFFFF - k * 0x0F0F);
                uint8_t str = (uint8_t) (k * 25);
                p.setVersion(ver); p.setDeviceId(dev); p.setStreamId(str); p.setSequenceCounter(seq);
                p.setTimestamp(tss[k % 4]); p.setInterfaceId(ifs[(k + 1) % 4]); p.setVendorId(vids[(k + 2) % 4]); p.setCommonFlags(fls[k]);
                uint8_t buf[8 + 4];
                memset(buf, 0xEE, sizeof buf);
                p.getRawCmpHeader(buf);
                Bytes e;
                ref::FrameHdr fh;
                fh.version = ver; fh.device = dev; fh.msgType = mt; fh.stream = str; fh.seq = seq;
                ref::putFrameHdr(e, fh);
                if (memcmp(buf, e.data(), 8) != 0)
                    w.fail("layout:Packet::getRawCmpHeader", "serialised " + mc::hex(buf, 8) + ", the layout prescribes " + mc::hex(e));
                if (buf[8] != 0xEE)
                    w.fail("layout:Packet::getRawCmpHeader-writes-past-8-bytes", "byte 8 of the destination was modified");
                uint8_t mb[16 + 4];
                memset(mb, 0xEE, sizeof mb);
                p.getRawMessageHeader(mb);
                ref::MsgHdr mh;
                mh.ts = tss[k % 4];
                mh.idword = mt == 1 ? ifs[(k + 1) % 4] : ((mt == 3 || mt == 0xFF) ? vids[(k + 2) % 4] : 0);
                mh.flags = fls[k]; mh.ptype = pt; mh.plen = (uint16_t) len;
                Bytes me;
                ref::putMsgHdr(me, mh);
                if (memcmp(mb, me.data(), 16) != 0)
                    w.fail("layout:Packet::getRawMessageHeader", ofmt("message type 0x%x: serialised ", mt) + mc::hex(mb, 16) + ", the layout prescribes " + mc::hex(me));
                if (mb[16] != 0xEE)
                    w.fail("layout:Packet::getRawMessageHeader-writes-past-16-bytes", "byte 16 of the destination was modified");
                w.add(mc::C_TRACES, 1);
                w.add(mc::C_TRANS, 2);
                w.outcome(mc::mix(mc::fnv(buf, 8), mc::fnv(mb, 16)));
            }
}

// ... and with the typed payloads of the value pool (incl. payloads that report bus errors), the header written before or after
// the payload was given: the serialised message header carries the flags byte that was written, the payload's type byte and
// length, and nothing the payload says
static void c12PacketTyped(W& w)
{
    auto pool = c14::asamPayloads();
    const uint8_t fls[] = {0x00, 0x23, 0x40, 0xBF};
    for (size_t q = 0; q < pool.size(); ++q)
        for (uint8_t fl : fls)
            for (int order = 0; order < 2; ++order)
            {
                auto desc = [&] { return ofmt("k=c12pktt;q=%zu;fl=%x;order=%d", q, fl, order); };
                if (!w.begin_case(desc))
                    continue;
                A::Payload pl = pool[q].second();
                A::Packet p;
                auto header = [&](A::Packet& x) { x.setTimestamp(0x0102030405060708ull); x.setInterfaceId(0x0A0B0C0D); x.setVendorId(0x0E0F); x.setCommonFlags(fl); };
                if (order == 0)
                    header(p);
                p.setPayload(pl);
                if (order == 1)
                    header(p);
                uint8_t mb[16];
                memset(mb, 0xEE, sizeof mb);
                p.getRawMessageHeader(mb);
                const uint8_t mt = (uint8_t) pl.getMessageType();
                ref::MsgHdr mh;
                mh.ts = 0x0102030405060708ull;
                mh.idword = mt == 1 ? 0x0A0B0C0Du : ((mt == 3 || mt == 0xFF) ? 0x0E0Fu : 0);
                mh.flags = fl; mh.ptype = pl.getRawPayloadType(); mh.plen = (uint16_t) pl.getLength();
                Bytes me;
                ref::putMsgHdr(me, mh);
                if (memcmp(mb, me.data(), 16) != 0)
                    w.fail("layout:Packet::getRawMessageHeader", "payload '" + pool[q].first + ofmt("', flags 0x%02x written %s the payload: serialised ", fl, order ? "after" : "before") + mc::hex(mb, 16) +
                                                                     ", the layout prescribes " + mc::hex(me));
                w.add(mc::C_TRACES, 1);
                w.add(mc::C_TRANS, 1);
                w.outcome(mc::mix(mc::fnv(mb, 16), q));
            }
}

// Flag setters take a MASK: every mask value (incl. the public two-bit CommonFlags::seg) must be set
// and cleared as a whole, from every prior flag state, without touching other bits or fields.
template <class T, class Mask, class Word>
static void maskSemantics(W& w, const char* cls, const std::vector<Word>& masks, const std::vector<Word>& backgrounds, std::function<T(Word)> make,
                          std::function<void(T&, Mask, bool)> set, std::function<bool(const T&, Mask)> get, std::function<Word(const T&)> flags,
                          std::function<uint64_t(const T&)> others)
{
    for (Word bg : backgrounds)
        for (Word m : masks)
            for (int val = 0; val < 2; ++val)
            {
                auto desc = [&] { return ofmt("k=c11mask;cls=%s;bg=%x;mask=%x;val=%d", cls, (unsigned) bg, (unsigned) m, val); };
                if (!w.begin_case(desc))
                    continue;
                T t = make(bg);
                uint64_t o0 = others(t);
                set(t, static_cast<Mask>(m), val != 0);
                Word want = (Word) (val ? (bg | m) : (bg & ~m));
                Word got = flags(t);
                if (got != want)
                    w.fail(std::string("flag-mask-semantics:") + cls, ofmt("flags 0x%x, set(mask 0x%x, %s): flags are 0x%x, expected 0x%x", (unsigned) bg, (unsigned) m, val ? "true" : "false",
                                                                        (unsigned) got, (unsigned) want));
                if (get(t, static_cast<Mask>(m)) != ((want & m) != 0))
                    w.fail(std::string("flag-mask-getter:") + cls, ofmt("flags 0x%x mask 0x%x: getter returns %d", (unsigned) want, (unsigned) m, (int) get(t, static_cast<Mask>(m))));
                if (others(t) != o0)
                    w.fail(std::string("side-effect:") + cls + "::setFlag(mask)", ofmt("set(mask 0x%x) changed another field", (unsigned) m));
                w.add(mc::C_TRACES, 1);
                w.add(mc::C_TRANS, 1);
                w.outcome(mc::mix(mc::fnv_s(cls), (uint64_t) __builtin_popcount(m) * 4 + val * 2 + (bg != 0)));
            }
}

static void c11Masks(W& w, int which)
{
    namespace A = ASAM::CMP;
    std::vector<uint8_t> all8, bg8;
    for (int i = 1; i < 256; ++i)
        all8.push_back((uint8_t) i);
    for (int i = 0; i < 256; ++i)
        bg8.push_back((uint8_t) i);
    std::vector<uint16_t> m16 = {0x00FF, 0xFF00, 0xFFFF, 0x0F0F, 0x5555, 0x03FF, 0x003B}, bg16 = {0, 0xFFFF, 0x5555, 0xAAAA, 0x1234, 0x0F0F};
    for (int b = 0; b < 16; ++b)
    {
        m16.push_back((uint16_t) (1u << b));
        bg16.push_back((uint16_t) (1u << b));
        if (b < 15)
            m16.push_back((uint16_t) (3u << b));
    }
    if (which == 0)
        maskSemantics<A::MessageHeader, A::MessageHeader::CommonFlags, uint8_t>(
            w, "MessageHeader", all8, bg8,
            [](uint8_t bg) { A::MessageHeader h; h.setTimestamp(0x1122334455667788ull); h.setInterfaceId(0x99AABBCC); h.setPayloadType(0xDD); h.setPayloadLength(0xEEFF); h.setCommonFlags(bg); return h; },
            [](A::MessageHeader& h, A::MessageHeader::CommonFlags m, bool v) { h.setCommonFlag(m, v); }, [](const A::MessageHeader& h, A::MessageHeader::CommonFlags m) { return h.getCommonFlag(m); },
            [](const A::MessageHeader& h) { return h.getCommonFlags(); },
            [](const A::MessageHeader& h) { return mc::mix(mc::mix(h.getTimestamp(), h.getInterfaceId()), (uint64_t) h.getPayloadType() << 16 | h.getPayloadLength()); });
    else if (which == 1)
        maskSemantics<A::Packet, A::MessageHeader::CommonFlags, uint8_t>(
            w, "Packet", all8, bg8,
            [](uint8_t bg) { A::Packet p; p.setTimestamp(7); p.setInterfaceId(8); p.setVendorId(9); p.setSegmentType(A::MessageHeader::SegmentType::firstSegment); p.setCommonFlags(bg); return p; },
            [](A::Packet& h, A::MessageHeader::CommonFlags m, bool v) { h.setCommonFlag(m, v); }, [](const A::Packet& h, A::MessageHeader::CommonFlags m) { return h.getCommonFlag(m); },
            [](const A::Packet& h) { return h.getCommonFlags(); },
            [](const A::Packet& h) { return mc::mix(mc::mix(h.getTimestamp(), h.getInterfaceId()), (uint64_t) h.getVendorId() << 8 | (uint8_t) h.getSegmentType()); });
    else if (which == 2)
        maskSemantics<A::CanFdPayload, A::CanPayloadBase::Flags, uint16_t>(
            w, "CanFdPayload", m16, bg16, [](uint16_t bg) { A::CanFdPayload p; p.setId(0x1234567); p.setCrc(0x1ABCDE); p.setErrorPosition(0x4321); p.setFlags(bg); return p; },
            [](A::CanFdPayload& h, A::CanPayloadBase::Flags m, bool v) { h.setFlag(m, v); }, [](const A::CanFdPayload& h, A::CanPayloadBase::Flags m) { return h.getFlag(m); },
            [](const A::CanFdPayload& h) { return h.getFlags(); }, [](const A::CanFdPayload& h) { return mc::mix(mc::mix(h.getId(), h.getCrc()), h.getErrorPosition()); });
    else if (which == 3)
        maskSemantics<A::LinPayload, A::LinPayload::Flags, uint16_t>(
            w, "LinPayload", m16, bg16, [](uint16_t bg) { A::LinPayload p; p.setLinId(0x2A); p.setChecksum(0x77); p.setFlags(bg); return p; },
            [](A::LinPayload& h, A::LinPayload::Flags m, bool v) { h.setFlag(m, v); }, [](const A::LinPayload& h, A::LinPayload::Flags m) { return h.getFlag(m); },
            [](const A::LinPayload& h) { return h.getFlags(); }, [](const A::LinPayload& h) { return mc::mix(h.getLinId(), h.getChecksum()); });
    else
        maskSemantics<A::EthernetPayload, A::EthernetPayload::Flags, uint16_t>(
            w, "EthernetPayload", m16, bg16, [](uint16_t bg) { A::EthernetPayload p; uint8_t d[3] = {1, 2, 3}; p.setData(d, 3); p.setFlags(bg); return p; },
            [](A::EthernetPayload& h, A::EthernetPayload::Flags m, bool v) { h.setFlag(m, v); }, [](const A::EthernetPayload& h, A::EthernetPayload::Flags m) { return h.getFlag(m); },
            [](const A::EthernetPayload& h) { return h.getFlags(); }, [](const A::EthernetPayload& h) { return mc::mix(h.getDataLength(), mc::fnv(h.getRawPayload() + 6, 3)); });
}

static std::vector<ErasedCls> allClasses()
{
    std::vector<ErasedCls> v;
    v.push_back(erase(tbl::cmpHeader()));
    v.push_back(erase(tbl::messageHeader()));
    v.push_back(erase(packetCls()));
    v.push_back(erase(tbl::payloadType()));
    v.push_back(erase(genericPayloadCls()));
    v.push_back(erase(tbl::canHeader()));
    v.push_back(erase(tbl::canPayload()));
    v.push_back(erase(tbl::canFdPayload()));
    v.push_back(erase(tbl::linHeader()));
    v.push_back(erase(tbl::linPayload()));
    v.push_back(erase(tbl::ethHeader()));
    v.push_back(erase(tbl::ethPayload()));
    v.push_back(erase(tbl::analogHeader()));
    v.push_back(erase(tbl::analogPayload()));
    v.push_back(erase(tbl::cmHeader()));
    v.push_back(erase(tbl::cmPayload()));
    v.push_back(erase(tbl::ifHeader()));
    v.push_back(erase(tbl::ifPayload()));
    v.push_back(erase(tbl::tecmpHeader()));
    v.push_back(erase(tbl::tecmpCan()));
    v.push_back(erase(tbl::tecmpLin()));
    v.push_back(erase(tbl::tecmpIf()));
    v.push_back(erase(tbl::tecmpCm()));
    v.push_back(erase(tecmpGenericPayloadCls()));
    return v;
}

static std::string readCase(const std::string& path)
{
    std::ifstream in(path);
    std::string cs((std::istreambuf_iterator<char>(in)), std::istreambuf_iterator<char>());
    while (!cs.empty() && (cs.back() == '\n' || cs.back() == '\r'))
        cs.pop_back();
    return cs;
}

int main(int argc, char** argv)
{
    mc::Options opt = mc::parse_args(argc, argv, "obj");
    mc::Run run(opt);
    const std::string prop = opt.prop;
    const bool thorough = opt.tier == "thorough";
    run.assumptions = {"VERIF_SEED is ignored: nothing is sampled"};

    if (prop == "C11" || prop == "C12")
    {
        auto classes = allClasses();
        for (auto& c : classes)
            for (auto& a : c.assumptions)
                run.assumptions.push_back(a);
        run.assumptions.push_back("fields wider than 16 bits are covered bit- and byte-lane-wise (every single bit, every byte lane 0..255 against all-zero and all-one "
                                  "neighbours), not value-exhaustively: every accessor is a composition of byte swaps, shifts and masks (bit-sliced)");
        size_t nf = 0;
        for (auto& c : classes)
            nf += c.fields.size();
        run.extra.push_back({"classes", mc::Json::num(classes.size())});
        run.extra.push_back({"fields", mc::Json::num(nf)});
        if (prop == "C11")
            run.rule = "class x field x value x background: ALL values for fields <= 16 bits, single bits + byte lanes + extremes for wider ones; backgrounds default / all-zero "
                       "/ all-ones / counting raw images (payload classes also with 5 data bytes behind the header); after set: get == value, every non-overlapping field's "
                       "getter unchanged, raw bytes unchanged outside the bits the independent layout table assigns to the field; every boolean additionally through the "
                       "sequence set,clear,set,set,clear,clear,set; distinct = distinct (class, field, background, population count of the value) combinations executed";
        else
            run.rule = "class x field x value: (a) API write into a default object must equal the default image with the value laid out big-endian at the table's offset/bit "
                       "position, (b) the value laid out by hand into zero / ones / counting images must be read back by the getter, (c) reserved bytes/bits zero in default "
                       "objects, (d) header sizes; Packet::getRawCmpHeader / getRawMessageHeader against hand-laid-out images for 5 message types; the length-prefixed sections of the two status payloads laid out by hand at 22 lengths around the byte / sign boundaries of the prefix; layout table written from "
                       "the protocol layouts (DESIGN.md Appendix A); distinct = distinct (class, field, population count of the value) combinations executed";
        run.replay_case = [prop](W& w, const std::string& cs) {
            auto kv = mc::kv_parse(cs);
            if (kv["k"] == "c12tecmp")
            {
                c12TecmpDerived(w);
                return;
            }
            if (kv["k"] == "c11setpayload")
            {
                c11SetPayload(w);
                return;
            }
            if (kv["k"] == "c12sec")
            {
                c12Sections(w);
                return;
            }
            if (kv["k"] == "c12const")
            {
                c12Constants(w);
                return;
            }
            if (kv["k"] == "c11mask")
            {
                // cheap: re-run the whole mask sweep of that class
                const char* names[5] = {"MessageHeader", "Packet", "CanFdPayload", "LinPayload", "EthernetPayload"};
                for (int i = 0; i < 5; ++i)
                    if (kv["cls"] == names[i])
                        c11Masks(w, i);
                return;
            }
            if (kv["k"] == "c12pktt")
            {
                c12PacketTyped(w);
                return;
            }
            if (kv["k"] == "c12pkt" || kv["k"] == "c12cls" || kv["k"] == "c11seq")
            {
                // class-level cases are cheap: re-run the whole class-level check
                auto classes = allClasses();
                if (kv["k"] == "c12pkt")
                    c12Packet(w);
                else
                    for (auto& c : classes)
                        if (c.name == kv["cls"])
                        {
                            if (kv["k"] == "c12cls")
                                c.runClass(w);
                            else
                                for (size_t fi = 0; fi < c.fields.size(); ++fi)
                                    if (c.fields[fi] == kv["fld"])
                                        c.runField(w, prop, fi);
                        }
                return;
            }
            auto classes = allClasses();
            for (auto& c : classes)
                if (c.name == kv["cls"])
                    for (size_t fi = 0; fi < c.fields.size(); ++fi)
                        if (c.fields[fi] == kv["fld"])
                            c.runOne(w, prop, fi, kv.count("bg") ? atoi(kv["bg"].c_str()) : -1, kv.count("extra") ? atoi(kv["extra"].c_str()) : -1,
                                     strtoull(kv["v"].c_str(), nullptr, 16));
        };
        if (!opt.case_file.empty())
            return run.run_single(readCase(opt.case_file));
        struct T { size_t ci, fi; };
        std::vector<T> ts;
        for (size_t ci = 0; ci < classes.size(); ++ci)
            for (size_t fi = 0; fi < classes[ci].fields.size(); ++fi)
                if (!isReadOnly(classes[ci].fields[fi]))
                    ts.push_back({ci, fi});
        run.round("every (class, field) x values x backgrounds", ts.size(), [&](W& w, uint64_t o) { classes[ts[o].ci].runField(w, prop, ts[o].fi); });
        if (prop == "C11")
            run.round("flag setters with every mask value (incl. multi-bit masks such as CommonFlags::seg) from every prior flag state", 5, [&](W& w, uint64_t o) { c11Masks(w, (int) o); });
        if (prop == "C11")
            run.round("Packet::setPayload from every prior state: nothing or any payload of a 23-member pool (incl. payloads that report bus errors) held before x 23 new payloads x header written before / after", 1,
                      [&](W& w, uint64_t) { c11SetPayload(w); });
        if (prop == "C12")
        {
            run.round("class level: default images, reserved bits, header sizes", classes.size(), [&](W& w, uint64_t o) { classes[o].runClass(w); });
            run.round("Packet serialisers against hand-laid-out images", 1, [&](W& w, uint64_t) { c12Packet(w); });
            run.round("Packet message-header serialiser with the typed payloads of the value pool (incl. payloads that report bus errors), header written before / after the payload", 1,
                      [&](W& w, uint64_t) { c12PacketTyped(w); });
            run.round("derived TECMP accessors (voltage, version strings) and TECMP::LinPayload::setData", 1, [&](W& w, uint64_t) { c12TecmpDerived(w); });
            run.round("named constants (flag bits, message / payload / data types) against the protocol tables", 1, [&](W& w, uint64_t) { c12Constants(w); });
            run.round("variable-length sections of the capture-module / interface status payloads: hand-laid-out images read through the getters", 1, [&](W& w, uint64_t) { c12Sections(w); });
        }
        (void) thorough;
        return run.finish();
    }
    if (prop == "C13")
        return runC13(run, opt);
    if (prop == "C14")
        return runC14(run, opt);
    fprintf(stderr, "engine obj does not serve %s\n", prop.c_str());
    return 2;
}
