// Engine `obj`: C11 (setters change their field and nothing else), C12 (wire layout), C13 (payload
// builders), C14 (packets and payloads are values).
#include "engines/obj_c11.h"
#include "engines/obj_c13.h"
#include "engines/obj_c14.h"

namespace A = ASAM::CMP;

static tbl::Cls<A::Packet> packetCls()
{
    using T = A::Packet;
    tbl::Cls<T> c;
    c.name = "Packet";
    c.makeBg = [](int bg) {
        T p;
        Bytes d = {1, 2, 3, 4, 5};
        p.setPayload(A::Payload(A::PayloadType(A::CmpHeader::MessageType::data, 0xFE), d.data(), d.size()));
        if (bg == 2)
        {
            p.setVersion(0xFF); p.setDeviceId(0xFFFF); p.setStreamId(0xFF); p.setSequenceCounter(0xFFFF); p.setTimestamp(~0ull); p.setInterfaceId(0xFFFFFFFFu);
            p.setVendorId(0xFFFF); p.setCommonFlags(0xFF); p.setSegmentType(A::MessageHeader::SegmentType::lastSegment);
        }
        else if (bg == 3)
        {
            p.setVersion(0x11); p.setDeviceId(0x2233); p.setStreamId(0x44); p.setSequenceCounter(0x5566); p.setTimestamp(0x778899AABBCCDDEEull); p.setInterfaceId(0x0F1E2D3Cu);
            p.setVendorId(0x4B5A); p.setCommonFlags(0x69); p.setSegmentType(A::MessageHeader::SegmentType::intermediarySegment);
        }
        else if (bg == 1)
        {
            p.setVersion(0);
        }
        return p;
    };
    c.fields = {
        FLD(T, "Version", 8, -1, 0, 0, o.setVersion((uint8_t) v), o.getVersion()),
        FLD(T, "DeviceId", 16, -1, 0, 0, o.setDeviceId((uint16_t) v), o.getDeviceId()),
        FLD(T, "StreamId", 8, -1, 0, 0, o.setStreamId((uint8_t) v), o.getStreamId()),
        FLD(T, "SequenceCounter", 16, -1, 0, 0, o.setSequenceCounter((uint16_t) v), o.getSequenceCounter()),
        FLD(T, "Timestamp", 64, -1, 0, 0, o.setTimestamp(v), o.getTimestamp()),
        FLD(T, "InterfaceId", 32, -1, 0, 0, o.setInterfaceId((uint32_t) v), o.getInterfaceId()),
        FLD(T, "VendorId", 16, -1, 0, 0, o.setVendorId((uint16_t) v), o.getVendorId()),
        FLD(T, "CommonFlags", 8, -1, 0, 0, o.setCommonFlags((uint8_t) v), o.getCommonFlags()),
        FLD(T, "SegmentType", 2, -1, 0, 0, o.setSegmentType(static_cast<A::MessageHeader::SegmentType>(v << 2)), (uint8_t) o.getSegmentType() >> 2),
        FLD(T, "PayloadLength(read-only)", 1, -1, 0, 0, (void) o, o.getPayloadLength()),
        FLD(T, "PayloadType(read-only)", 1, -1, 0, 0, (void) o, o.getPayloadType()),
        FLD(T, "PayloadBytes(read-only)", 1, -1, 0, 0, (void) o, mc::fnv(o.getPayload().getRawPayload(), o.getPayload().getLength())),
    };
    const std::pair<const char*, uint8_t> flags[] = {{"recalc", 0x01}, {"insync", 0x02}, {"diOnIf", 0x10}, {"overflow", 0x20}, {"errorInPayload", 0x40}};
    for (auto& f : flags)
    {
        uint8_t m = f.second;
        tbl::Field<T> fl{std::string("CommonFlag(") + f.first + ")", 1, -1, 0, 0, [m](T& o, uint64_t v) { o.setCommonFlag(static_cast<A::MessageHeader::CommonFlags>(m), v != 0); },
                         [m](const T& o) -> uint64_t { return o.getCommonFlag(static_cast<A::MessageHeader::CommonFlags>(m)); }, {}, false, {"CommonFlags"}};
        c.fields.push_back(fl);
    }
    return c;
}

// the three read-only pseudo fields of Packet must not be "set"
static bool isReadOnly(const std::string& n) { return n.find("(read-only)") != std::string::npos; }

// Generic Payload: type accessors must not touch the data bytes
static tbl::Cls<A::Payload> genericPayloadCls()
{
    using T = A::Payload;
    tbl::Cls<T> c;
    c.name = "Payload";
    c.makeBg = [](int bg) {
        Bytes d = bgImage(7, bg == 0 ? 3 : bg);
        return T(A::PayloadType(bg == 2 ? 0xFFFFu : (bg == 3 ? 0x1234u : 0x0101u)), d.data(), d.size());
    };
    c.fields = {
        FLD(T, "Type", 32, -1, 0, 0, o.setType(A::PayloadType((uint32_t) v)), o.getType().getType()),
        FLD(T, "MessageType", 8, -1, 0, 0, o.setMessageType(static_cast<A::CmpHeader::MessageType>(v)), o.getMessageType()),
        FLD(T, "RawPayloadType", 8, -1, 0, 0, o.setRawPayloadType((uint8_t) v), o.getRawPayloadType()),
        FLD(T, "Length(read-only)", 1, -1, 0, 0, (void) o, o.getLength()),
        FLD(T, "Bytes(read-only)", 1, -1, 0, 0, (void) o, mc::fnv(o.getRawPayload(), o.getLength())),
    };
    c.fields[0].aliases = {"MessageType", "RawPayloadType"};
    return c;
}

// C12 for Packet: the two serialisers against hand-laid-out images
static void c12Packet(W& w)
{
    const uint8_t mts[] = {1, 2, 3, 0xFF, 0x07};
    const uint64_t tss[] = {0, 0x0102030405060708ull, ~0ull, 0x8000000000000001ull};
    const uint32_t ifs[] = {0, 0x01020304u, 0xFFFFFFFFu, 0x80000001u};
    const uint16_t vids[] = {0, 0x0102, 0xFFFF, 0x8001};
    const uint8_t fls[] = {0, 0x01, 0x02, 0x04, 0x08, 0x10, 0x20, 0x40, 0x80, 0xFF, 0xA5};
    for (uint8_t mt : mts)
        for (size_t len : {(size_t) 0, (size_t) 1, (size_t) 258, (size_t) 65535})
            for (int k = 0; k < 11; ++k)
            {
                auto desc = [&] { return ofmt("k=c12pkt;mt=%x;len=%zu;k=%d", mt, len, k); };
                if (!w.begin_case(desc))
                    continue;
                A::Packet p;
                Bytes d(len, 0x5A);
                uint8_t pt = (uint8_t) (0xF0 + k);
                p.setPayload(A::Payload(A::PayloadType(static_cast<A::CmpHeader::MessageType>(mt), pt), d.data(), d.size()));
                uint8_t ver = (uint8_t) (k * 23 + 1);
                uint16_t dev = (uint16_t) (k * 0x1111 + 0x0102), seq = (uint16_t) (0xFFFF - k * 0x0F0F);
                uint8_t str = (uint8_t) (k * 25);
                p.setVersion(ver); p.setDeviceId(dev); p.setStreamId(str); p.setSequenceCounter(seq);
                p.setTimestamp(tss[k % 4]); p.setInterfaceId(ifs[(k + 1) % 4]); p.setVendorId(vids[(k + 2) % 4]); p.setCommonFlags(fls[k]);
                uint8_t buf[8 + 4];
                memset(buf, 0xEE, sizeof buf);
                p.getRawCmpHeader(buf);
                Bytes e;
                ref::FrameHdr fh;
                fh.version = ver; fh.device = dev; fh.msgType = mt; fh.stream = str; fh.seq = seq;
                ref::putFrameHdr(e, fh);
                if (memcmp(buf, e.data(), 8) != 0)
                    w.fail("layout:Packet::getRawCmpHeader", "serialised " + mc::hex(buf, 8) + ", the layout prescribes " + mc::hex(e));
                if (buf[8] != 0xEE)
                    w.fail("layout:Packet::getRawCmpHeader-writes-past-8-bytes", "byte 8 of the destination was modified");
                uint8_t mb[16 + 4];
                memset(mb, 0xEE, sizeof mb);
                p.getRawMessageHeader(mb);
                ref::MsgHdr mh;
                mh.ts = tss[k % 4];
                mh.idword = mt == 1 ? ifs[(k + 1) % 4] : ((mt == 3 || mt == 0xFF) ? vids[(k + 2) % 4] : 0);
                mh.flags = fls[k]; mh.ptype = pt; mh.plen = (uint16_t) len;
                Bytes me;
                ref::putMsgHdr(me, mh);
                if (memcmp(mb, me.data(), 16) != 0)
                    w.fail("layout:Packet::getRawMessageHeader", ofmt("message type 0x%x: serialised ", mt) + mc::hex(mb, 16) + ", the layout prescribes " + mc::hex(me));
                if (mb[16] != 0xEE)
                    w.fail("layout:Packet::getRawMessageHeader-writes-past-16-bytes", "byte 16 of the destination was modified");
                w.add(mc::C_TRACES, 1);
                w.add(mc::C_TRANS, 2);
                w.outcome(mc::mix(mc::fnv(buf, 8), mc::fnv(mb, 16)));
            }
}

static std::vector<ErasedCls> allClasses()
{
    std::vector<ErasedCls> v;
    v.push_back(erase(tbl::cmpHeader()));
    v.push_back(erase(tbl::messageHeader()));
    v.push_back(erase(packetCls()));
    v.push_back(erase(tbl::payloadType()));
    v.push_back(erase(genericPayloadCls()));
    v.push_back(erase(tbl::canHeader()));
    v.push_back(erase(tbl::canPayload()));
    v.push_back(erase(tbl::canFdPayload()));
    v.push_back(erase(tbl::linHeader()));
    v.push_back(erase(tbl::linPayload()));
    v.push_back(erase(tbl::ethHeader()));
    v.push_back(erase(tbl::ethPayload()));
    v.push_back(erase(tbl::analogHeader()));
    v.push_back(erase(tbl::analogPayload()));
    v.push_back(erase(tbl::cmHeader()));
    v.push_back(erase(tbl::cmPayload()));
    v.push_back(erase(tbl::ifHeader()));
    v.push_back(erase(tbl::ifPayload()));
    v.push_back(erase(tbl::tecmpHeader()));
    v.push_back(erase(tbl::tecmpCan()));
    v.push_back(erase(tbl::tecmpLin()));
    v.push_back(erase(tbl::tecmpIf()));
    v.push_back(erase(tbl::tecmpCm()));
    return v;
}

static std::string readCase(const std::string& path)
{
    std::ifstream in(path);
    std::string cs((std::istreambuf_iterator<char>(in)), std::istreambuf_iterator<char>());
    while (!cs.empty() && (cs.back() == '\n' || cs.back() == '\r'))
        cs.pop_back();
    return cs;
}

int main(int argc, char** argv)
{
    mc::Options opt = mc::parse_args(argc, argv, "obj");
    mc::Run run(opt);
    const std::string prop = opt.prop;
    const bool thorough = opt.tier == "thorough";
    run.assumptions = {"VERIF_SEED is ignored: nothing is sampled"};

    if (prop == "C11" || prop == "C12")
    {
        auto classes = allClasses();
        for (auto& c : classes)
            for (auto& a : c.assumptions)
                run.assumptions.push_back(a);
        run.assumptions.push_back("fields wider than 16 bits are covered bit- and byte-lane-wise (every single bit, every byte lane 0..255 against all-zero and all-one "
                                  "neighbours), not value-exhaustively: every accessor is a composition of byte swaps, shifts and masks (bit-sliced)");
        size_t nf = 0;
        for (auto& c : classes)
            nf += c.fields.size();
        run.extra.push_back({"classes", mc::Json::num(classes.size())});
        run.extra.push_back({"fields", mc::Json::num(nf)});
        if (prop == "C11")
            run.rule = "class x field x value x background: ALL values for fields <= 16 bits, single bits + byte lanes + extremes for wider ones; backgrounds default / all-zero "
                       "/ all-ones / counting raw images (payload classes also with 5 data bytes behind the header); after set: get == value, every non-overlapping field's "
                       "getter unchanged, raw bytes unchanged outside the bits the independent layout table assigns to the field; every boolean additionally through the "
                       "sequence set,clear,set,set,clear,clear,set; distinct = distinct (class, field, background, population count of the value) combinations executed";
        else
            run.rule = "class x field x value: (a) API write into a default object must equal the default image with the value laid out big-endian at the table's offset/bit "
                       "position, (b) the value laid out by hand into zero / ones / counting images must be read back by the getter, (c) reserved bytes/bits zero in default "
                       "objects, (d) header sizes; Packet::getRawCmpHeader / getRawMessageHeader against hand-laid-out images for 5 message types; layout table written from "
                       "the protocol layouts (DESIGN.md Appendix A); distinct = distinct (class, field, population count of the value) combinations executed";
        run.replay_case = [prop](W& w, const std::string& cs) {
            auto kv = mc::kv_parse(cs);
            if (kv["k"] == "c12pkt" || kv["k"] == "c12cls" || kv["k"] == "c11seq")
            {
                // class-level cases are cheap: re-run the whole class-level check
                auto classes = allClasses();
                if (kv["k"] == "c12pkt")
                    c12Packet(w);
                else
                    for (auto& c : classes)
                        if (c.name == kv["cls"])
                        {
                            if (kv["k"] == "c12cls")
                                c.runClass(w);
                            else
                                for (size_t fi = 0; fi < c.fields.size(); ++fi)
                                    if (c.fields[fi] == kv["fld"])
                                        c.runField(w, prop, fi);
                        }
                return;
            }
            auto classes = allClasses();
            for (auto& c : classes)
                if (c.name == kv["cls"])
                    for (size_t fi = 0; fi < c.fields.size(); ++fi)
                        if (c.fields[fi] == kv["fld"])
                            c.runOne(w, prop, fi, kv.count("bg") ? atoi(kv["bg"].c_str()) : -1, kv.count("extra") ? atoi(kv["extra"].c_str()) : -1,
                                     strtoull(kv["v"].c_str(), nullptr, 16));
        };
        if (!opt.case_file.empty())
            return run.run_single(readCase(opt.case_file));
        struct T { size_t ci, fi; };
        std::vector<T> ts;
        for (size_t ci = 0; ci < classes.size(); ++ci)
            for (size_t fi = 0; fi < classes[ci].fields.size(); ++fi)
                if (!isReadOnly(classes[ci].fields[fi]))
                    ts.push_back({ci, fi});
        run.round("every (class, field) x values x backgrounds", ts.size(), [&](W& w, uint64_t o) { classes[ts[o].ci].runField(w, prop, ts[o].fi); });
        if (prop == "C12")
        {
            run.round("class level: default images, reserved bits, header sizes", classes.size(), [&](W& w, uint64_t o) { classes[o].runClass(w); });
            run.round("Packet serialisers against hand-laid-out images", 1, [&](W& w, uint64_t) { c12Packet(w); });
        }
        (void) thorough;
        return run.finish();
    }
    if (prop == "C13")
        return runC13(run, opt);
    if (prop == "C14")
        return runC14(run, opt);
    fprintf(stderr, "engine obj does not serve %s\n", prop.c_str());
    return 2;
}
