// C13: payload builders store data faithfully, produce self-valid payloads, and the raw bytes depend
// only on the final logical content.
#pragma once
#include <asam_cmp/decoder.h>

#include "engines/obj_c11.h"
#include "ref/payloads.h"

namespace c13 {
namespace A = ASAM::CMP;

static inline Bytes pat(size_t n, unsigned tag)
{
    Bytes b(n);
    for (size_t i = 0; i < n; ++i)
        b[i] = (uint8_t) (i * 17u + tag * 29u + 0x81u);
    return b;
}

// prior contents: 0 none, 1 shorter, 2 longer, 3 same length different bytes; 4 / 5 raw image with trailing bytes (see below).
// prior + 10: the same, and every getter of the object is called BETWEEN the two builder calls (an observation is an operation too:
// whatever a getter remembers must not survive the next setData)
static volatile uint64_t g_sink;
// abort=n in a case: the builder call under test is first attempted with its n-th allocation failing (it ends with std::bad_alloc)
// and then made again; everything demanded of the result is demanded all the same
static int g_abortN = 0;
static bool g_abortFired = false;
#define C13_FINAL(call)                         \
    do                                          \
    {                                           \
        if (g_abortN)                           \
        {                                       \
            mc::af::arm(g_abortN);              \
            try                                 \
            {                                   \
                call;                           \
            }                                   \
            catch (const std::bad_alloc&)       \
            {                                   \
            }                                   \
            g_abortFired = mc::af::disarm();    \
        }                                       \
        call;                                   \
    } while (0)
template <class T>
static inline void touchData(const T& p)
{
    uint64_t h = p.getLength();
    const uint8_t* d = p.getData();
    h = h * 31 + (uint64_t) p.getDataLength();
    if (d && p.getDataLength())
        h = h * 31 + d[0] + d[p.getDataLength() - 1];
    h = h * 31 + (p.getRawPayload() ? p.getRawPayload()[0] : 0);
    g_sink = h;
}
static inline size_t priorLen(int prior, size_t len, size_t maxLen)
{
    switch (prior)
    {
        case 1: return len / 2;
        case 2: return std::min(maxLen, len + 7);
        case 7: return std::min<size_t>(maxLen, std::max<size_t>(255, 4 * len + 600));   // MUCH longer: more than twice the new size (a shrink-to-fit path)
        default: return len;
    }
}

static inline void decodeCheck(W& w, const char* cls, uint8_t mt, uint8_t pt, const Bytes& raw, uint32_t fullType)
{
    if (raw.size() > 65535)
        return;
    ref::FrameHdr fh;
    fh.device = 9; fh.stream = 2; fh.msgType = mt;
    Bytes f = ref::buildFrame(fh, {ref::mkMsg(pt, raw, 0, 5, 6)});
    A::Decoder d;
    auto pk = d.decode(f.data(), f.size());
    w.add(mc::C_TRANS, 1);
    if (pk.size() != 1 || !pk[0])
    {
        w.fail(std::string("built-payload-not-decodable:") + cls, ofmt("a frame carrying the built payload decoded to %zu packets", pk.size()));
        return;
    }
    if (!pk[0]->isValid())
        w.fail(std::string("built-payload-rejected-by-decoder:") + cls, "the decoder marks the built payload invalid");
    else if (pk[0]->getPayload().getType().getType() != fullType)
        w.fail(std::string("built-payload-decoded-as-other-type:") + cls, ofmt("decoded type 0x%x", pk[0]->getPayload().getType().getType()));
    else if (pk[0]->getPayload().getLength() != raw.size() || memcmp(pk[0]->getPayload().getRawPayload(), raw.data(), raw.size()) != 0)
        w.fail(std::string("built-payload-bytes-change-through-decoder:") + cls, "decoded payload bytes differ from the built ones");
}

static const uint8_t kDlc[65] = {0, 1, 2, 3, 4, 5, 6, 7, 8, 0, 0, 0, 9, 0, 0, 0, 10, 0, 0, 0, 11, 0, 0, 0, 12, 0, 0, 0, 0, 0, 0, 0, 13, 0, 0, 0, 0, 0, 0, 0, 0, 0, 0, 0, 0, 0, 0, 0, 14, 0, 0, 0, 0, 0, 0, 0, 0, 0, 0, 0, 0, 0, 0, 0, 15};
static inline bool dlcRepresentable(size_t len) { return len <= 8 || len == 12 || len == 16 || len == 20 || len == 24 || len == 32 || len == 48 || len == 64; }

template <class T>
static void setRemoteBit(T& p, bool v);
template <>
void setRemoteBit<A::CanPayload>(A::CanPayload& p, bool v) { p.setRtr(v); }
template <>
void setRemoteBit<A::CanFdPayload>(A::CanFdPayload& p, bool v) { p.setRrs(v); }
template <class T>
static bool getRemoteBit(const T& p);
template <>
bool getRemoteBit<A::CanPayload>(const A::CanPayload& p) { return p.getRtr(); }
template <>
bool getRemoteBit<A::CanFdPayload>(const A::CanFdPayload& p) { return p.getRrs(); }

// Prior state of kinds 4 / 5: the object was not filled through the builder but constructed from a raw image (as the decoder
// does), whose data-length field says l0 while three more bytes follow the data (the validators accept length <= available).
// Its header equals what hdr() sets, so the builder under test must arrive at the same bytes as on a fresh object.
template <class T, class Hdr>
static T fromImageWithTrail(Hdr hdr, size_t l0)
{
    T q;
    hdr(q);
    Bytes pd = pat(l0, 7);
    q.setData(pd.data(), (decltype(q.getDataLength())) l0);
    Bytes img(q.getRawPayload(), q.getRawPayload() + q.getLength());
    img.push_back(0xEE); img.push_back(0xDD); img.push_back(0xCC);
    return T(img.data(), img.size());
}

// hv: header variant (bit 0: RTR/RRS bit set before the data, bit 1: ide clear / rsvd set, other flags)
template <class T>
static void canLike(W& w, const char* cls, uint8_t pt, uint32_t fullType, int prior, size_t len, int hv = 0)
{
    const bool remote = hv & 1, alt = hv & 2;
    const int prior0 = prior;
    const bool held = prior >= 20;   // the object lives inside a Packet (a base-class copy made by setPayload) and is reached through getPayload()
    prior %= 20;
    const bool look = prior >= 10;
    prior %= 10;
    auto hdr = [remote, alt](T& p) {
        p.setId(0x12345678 & 0x1FFFFFFF); p.setIde(!alt); p.setRsvd(alt); p.setFlags(alt ? 0x2800 : 0x0C00); p.setCrcSupport(!alt); p.setErrorPosition(0);
        setRemoteBit(p, remote);
    };
    T own;
    hdr(own);
    A::Packet holder;
    if (held)
        holder.setPayload(own);
    T& p = held ? static_cast<T&>(holder.getPayload()) : own;
    if (prior && (prior < 4 || prior == 7))
    {
        Bytes pd = pat(priorLen(prior, len, 255), 7);
        p.setData(pd.data(), (uint8_t) pd.size());
    }
    if (prior >= 4 && prior != 7)
        p = fromImageWithTrail<T>(hdr, prior == 4 ? len : len / 2);
    if (look)
    {
        touchData(p);
        g_sink = p.getId() + p.getDlc() + p.getCrc() + p.getFlags() + p.getErrorPosition() + T::isValidPayload(p.getRawPayload(), p.getLength());
    }
    Bytes d = pat(len, 1);
    C13_FINAL(p.setData(d.data(), (uint8_t) len));
    w.add(mc::C_TRANS, 2);
    std::string k = cls;
    if (p.getDataLength() != len)
        w.fail("builder:data-length:" + k, ofmt("setData(%zu bytes), header variant %d: getDataLength() = %u", len, hv, p.getDataLength()));
    else if (len && (p.getData() == nullptr || memcmp(p.getData(), d.data(), len) != 0))
        w.fail("builder:data-bytes:" + k, ofmt("setData(%zu bytes): getData() returns other bytes", len));
    if (p.getId() != (0x12345678 & 0x1FFFFFFF) || p.getIde() != !alt || p.getRsvd() != alt || p.getFlags() != (alt ? 0x2800 : 0x0C00) || p.getCrcSupport() != !alt ||
        p.getErrorPosition() != 0 || getRemoteBit(p) != remote)
        w.fail("builder:header-field-not-preserved:" + k, ofmt("setData(%zu bytes) after prior contents %d (header variant %d) changed a header field", len, prior, hv));
    if (p.getLength() != ref::HDR_CAN + len)
        w.fail("builder:payload-length:" + k, ofmt("setData(%zu bytes): getLength() = %zu, header + data = %zu", len, p.getLength(), ref::HDR_CAN + len));
    Bytes raw(p.getRawPayload(), p.getRawPayload() + p.getLength());
    if (raw.size() >= ref::HDR_CAN)
    {
        if (raw[15] != len)
            w.fail("builder:wire-length-field:" + k, ofmt("data length byte on the wire = %u, data has %zu bytes", raw[15], len));
        if (dlcRepresentable(len) && raw[14] != kDlc[len])
            w.fail("builder:dlc:" + k, ofmt("data length %zu: DLC on the wire = %u, the standard table says %u", len, raw[14], kDlc[len]));
        if (dlcRepresentable(len) && p.getDlc() != kDlc[len])
            w.fail("builder:dlc:" + k, ofmt("data length %zu: getDlc() = %u, the standard table says %u", len, p.getDlc(), kDlc[len]));
        if (raw.size() == ref::HDR_CAN + len && memcmp(raw.data() + ref::HDR_CAN, d.data(), len) != 0)
            w.fail("builder:wire-data-bytes:" + k, "data bytes behind the header differ from the supplied ones");
    }
    if (!T::isValidPayload(raw.data(), raw.size()))
        w.fail("builder:own-validity-check-rejects:" + k, ofmt("isValidPayload rejects the payload built by setData(%zu bytes)", len));
    decodeCheck(w, cls, ref::MT_DATA, pt, raw, fullType);
    T fresh;
    hdr(fresh);
    fresh.setData(d.data(), (uint8_t) len);
    Bytes fr(fresh.getRawPayload(), fresh.getRawPayload() + fresh.getLength());
    if (fr != raw)
        w.fail("builder:raw-bytes-depend-on-history:" + k, ofmt("prior contents %d then setData(%zu bytes): raw %s..., fresh object: %s...", prior, len, mc::hex(raw.data(), std::min<size_t>(raw.size(), 40)).c_str(),
                                                              mc::hex(fr.data(), std::min<size_t>(fr.size(), 40)).c_str()));
    w.outcome(mc::mix(mc::fnv_s(k), mc::mix(len, prior0 * 4 + hv)));
}

// LIN checksum over the data bytes (classic) or over protected id + data bytes (enhanced): inverted 8-bit sum with end-around carry
static inline uint8_t linChecksum(const Bytes& d, int withPid)
{
    unsigned sum = withPid >= 0 ? (unsigned) withPid : 0;
    for (uint8_t b : d)
    {
        sum += b;
        if (sum > 0xFF)
            sum -= 0xFF;
    }
    return (uint8_t) ~sum;
}

// hv: the checksum the header carries before the builder call under test: 0 an arbitrary value, 1 / 2 the CORRECT classic / enhanced
// LIN checksum of the data the object holds at that moment (fields that are consistent with each other by the protocol's semantics
// are still independent fields to the builder: setData changes the data, the length field and nothing else)
static inline void lin(W& w, int prior, size_t len, int hv = 0)
{
    using T = A::LinPayload;
    uint8_t cks = 0xC3;
    {
        int pr = prior % 10;
        Bytes held0 = pr == 0 ? Bytes{} : (pr < 4 ? pat(priorLen(pr, len, 255), 7) : pat(pr == 4 ? len : len / 2, 7));
        if (hv == 1)
            cks = linChecksum(held0, -1);
        else if (hv == 2)
            cks = linChecksum(held0, (2 << 6) | 0x2A);
    }
    auto hdr = [cks](T& p) { p.setLinId(0x2A); p.setParityBits(2); p.setChecksum(cks); p.setFlags(0x0100); };
    const int prior0 = prior;
    const bool held = prior >= 20;   // the object lives inside a Packet (a base-class copy made by setPayload) and is reached through getPayload()
    prior %= 20;
    const bool look = prior >= 10;
    prior %= 10;
    T own;
    hdr(own);
    A::Packet holder;
    if (held)
        holder.setPayload(own);
    T& p = held ? static_cast<T&>(holder.getPayload()) : own;
    if (prior && (prior < 4 || prior == 7))
    {
        Bytes pd = pat(priorLen(prior, len, 255), 7);
        p.setData(pd.data(), (uint8_t) pd.size());
    }
    if (prior >= 4 && prior != 7)
        p = fromImageWithTrail<T>(hdr, prior == 4 ? len : len / 2);
    if (look)
    {
        touchData(p);
        g_sink = p.getLinId() + p.getChecksum() + p.getFlags() + T::isValidPayload(p.getRawPayload(), p.getLength());
    }
    Bytes d = pat(len, 2);
    C13_FINAL(p.setData(d.data(), (uint8_t) len));
    w.add(mc::C_TRANS, 2);
    std::string k = "LinPayload";
    if (p.getDataLength() != len)
        w.fail("builder:data-length:" + k, ofmt("setData(%zu bytes): getDataLength() = %u", len, p.getDataLength()));
    else if (len && (p.getData() == nullptr || memcmp(p.getData(), d.data(), len) != 0))
        w.fail("builder:data-bytes:" + k, "getData() returns other bytes");
    if (p.getLinId() != 0x2A || p.getParityBits() != 2 || p.getChecksum() != cks || p.getFlags() != 0x0100)
        w.fail("builder:header-field-not-preserved:" + k, ofmt("setData(%zu bytes) after prior contents %d changed a header field (checksum 0x%02x, was 0x%02x - variant %d)", len, prior, p.getChecksum(), cks, hv));
    if (p.getLength() != ref::HDR_LIN + len)
        w.fail("builder:payload-length:" + k, ofmt("getLength() = %zu, header + data = %zu", p.getLength(), ref::HDR_LIN + len));
    Bytes raw(p.getRawPayload(), p.getRawPayload() + p.getLength());
    if (raw.size() >= ref::HDR_LIN && raw[7] != len)
        w.fail("builder:wire-length-field:" + k, ofmt("data length byte on the wire = %u, data has %zu bytes", raw[7], len));
    if (raw.size() == ref::HDR_LIN + len && memcmp(raw.data() + ref::HDR_LIN, d.data(), len) != 0)
        w.fail("builder:wire-data-bytes:" + k, "data bytes behind the header differ from the supplied ones");
    if (!T::isValidPayload(raw.data(), raw.size()))
        w.fail("builder:own-validity-check-rejects:" + k, "isValidPayload rejects the built payload");
    decodeCheck(w, "LinPayload", ref::MT_DATA, ref::PT_LIN, raw, A::PayloadType::lin);
    T fresh;
    hdr(fresh);
    fresh.setData(d.data(), (uint8_t) len);
    if (Bytes(fresh.getRawPayload(), fresh.getRawPayload() + fresh.getLength()) != raw)
        w.fail("builder:raw-bytes-depend-on-history:" + k, ofmt("prior contents %d then setData(%zu bytes) differs from a fresh object", prior, len));
    w.outcome(mc::mix(mc::fnv_s(k), mc::mix(len, prior0)));
}

static inline void eth(W& w, int prior, size_t len)
{
    using T = A::EthernetPayload;
    const int prior0 = prior;
    const bool held = prior >= 20;   // the object lives inside a Packet (a base-class copy made by setPayload) and is reached through getPayload()
    prior %= 20;
    const bool look = prior >= 10;
    prior %= 10;
    T own;
    own.setFlags(0x00C4);
    A::Packet holder;
    if (held)
        holder.setPayload(own);
    T& p = held ? static_cast<T&>(holder.getPayload()) : own;
    if (prior && (prior < 4 || prior == 7))
    {
        Bytes pd = pat(priorLen(prior, len, 65529), 7);
        p.setData(pd.data(), (uint16_t) pd.size());
    }
    if (prior >= 4 && prior != 7)
        p = fromImageWithTrail<T>([](T& q) { q.setFlags(0x00C4); }, prior == 4 ? len : len / 2);
    if (look)
    {
        touchData(p);
        g_sink = p.getFlags() + T::isValidPayload(p.getRawPayload(), p.getLength());
    }
    Bytes d = pat(len, 3);
    C13_FINAL(p.setData(d.data(), (uint16_t) len));
    w.add(mc::C_TRANS, 2);
    std::string k = "EthernetPayload";
    if (p.getDataLength() != len)
        w.fail("builder:data-length:" + k, ofmt("setData(%zu bytes): getDataLength() = %u", len, p.getDataLength()));
    else if (len && (p.getData() == nullptr || memcmp(p.getData(), d.data(), len) != 0))
        w.fail("builder:data-bytes:" + k, "getData() returns other bytes");
    if (p.getFlags() != 0x00C4)
        w.fail("builder:header-field-not-preserved:" + k, "flags changed");
    if (p.getLength() != ref::HDR_ETH + len)
        w.fail("builder:payload-length:" + k, ofmt("getLength() = %zu, header + data = %zu", p.getLength(), ref::HDR_ETH + len));
    Bytes raw(p.getRawPayload(), p.getRawPayload() + p.getLength());
    if (raw.size() >= ref::HDR_ETH && ref::rd(&raw[4], 2) != len)
        w.fail("builder:wire-length-field:" + k, ofmt("data length on the wire = %llu, data has %zu bytes", (unsigned long long) ref::rd(&raw[4], 2), len));
    if (raw.size() == ref::HDR_ETH + len && memcmp(raw.data() + ref::HDR_ETH, d.data(), len) != 0)
        w.fail("builder:wire-data-bytes:" + k, "data bytes behind the header differ from the supplied ones");
    if (!T::isValidPayload(raw.data(), raw.size()))
        w.fail("builder:own-validity-check-rejects:" + k, "isValidPayload rejects the built payload");
    decodeCheck(w, "EthernetPayload", ref::MT_DATA, ref::PT_ETH, raw, A::PayloadType::ethernet);
    T fresh;
    fresh.setFlags(0x00C4);
    fresh.setData(d.data(), (uint16_t) len);
    if (Bytes(fresh.getRawPayload(), fresh.getRawPayload() + fresh.getLength()) != raw)
        w.fail("builder:raw-bytes-depend-on-history:" + k, ofmt("prior contents %d then setData(%zu bytes) differs from a fresh object", prior, len));
    w.outcome(mc::mix(mc::fnv_s(k), mc::mix(len, prior0)));
}

static inline void analog(W& w, int prior, size_t len, int dt)
{
    const int prior0 = prior;
    const bool held = prior >= 20;   // the object lives inside a Packet (a base-class copy made by setPayload) and is reached through getPayload()
    prior %= 20;
    const bool look = prior >= 10;
    prior %= 10;
    using T = A::AnalogPayload;
    auto hdr = [dt](T& p) {
        p.setSampleDt(dt ? T::SampleDt::aInt32 : T::SampleDt::aInt16); p.setUnit(T::Unit::volt); p.setSampleInterval(0.25f); p.setSampleOffset(-2.0f); p.setSampleScalar(3.5f);
    };
    T own;
    hdr(own);
    A::Packet holder;
    if (held)
        holder.setPayload(own);
    T& p = held ? static_cast<T&>(holder.getPayload()) : own;
    if (prior)
    {
        Bytes pd = pat(priorLen(prior, len, 65519), 7);
        p.setData(pd.data(), pd.size());
    }
    if (look)
        g_sink = p.getSamplesCount() + (uint64_t) (uintptr_t) p.getData() + p.getLength() + T::isValidPayload(p.getRawPayload(), p.getLength());
    Bytes d = pat(len, 4);
    C13_FINAL(p.setData(d.data(), len));
    w.add(mc::C_TRANS, 2);
    std::string k = "AnalogPayload";
    size_t ss = dt ? 4 : 2;
    if (p.getSamplesCount() != len / ss)
        w.fail("builder:sample-count:" + k, ofmt("setData(%zu bytes) with %zu-byte samples: getSamplesCount() = %zu", len, ss, p.getSamplesCount()));
    else if (len / ss && (p.getData() == nullptr || memcmp(p.getData(), d.data(), len) != 0))
        w.fail("builder:data-bytes:" + k, "getData() returns other bytes");
    if (p.getSampleDt() != (dt ? T::SampleDt::aInt32 : T::SampleDt::aInt16) || p.getUnit() != T::Unit::volt || p.getSampleInterval() != 0.25f || p.getSampleOffset() != -2.0f ||
        p.getSampleScalar() != 3.5f)
        w.fail("builder:header-field-not-preserved:" + k, "a header field changed");
    if (p.getLength() != ref::HDR_ANALOG + len)
        w.fail("builder:payload-length:" + k, ofmt("getLength() = %zu, header + data = %zu", p.getLength(), ref::HDR_ANALOG + len));
    Bytes raw(p.getRawPayload(), p.getRawPayload() + p.getLength());
    if (raw.size() == ref::HDR_ANALOG + len && memcmp(raw.data() + ref::HDR_ANALOG, d.data(), len) != 0)
        w.fail("builder:wire-data-bytes:" + k, "sample bytes behind the header differ from the supplied ones");
    if (!T::isValidPayload(raw.data(), raw.size()))
        w.fail("builder:own-validity-check-rejects:" + k, "isValidPayload rejects the built payload");
    decodeCheck(w, "AnalogPayload", ref::MT_DATA, ref::PT_ANALOG, raw, A::PayloadType::analog);
    T fresh;
    hdr(fresh);
    fresh.setData(d.data(), len);
    if (Bytes(fresh.getRawPayload(), fresh.getRawPayload() + fresh.getLength()) != raw)
        w.fail("builder:raw-bytes-depend-on-history:" + k, ofmt("prior contents %d then setData(%zu bytes) differs from a fresh object", prior, len));
    w.outcome(mc::mix(mc::fnv_s(k), mc::mix(len, prior0 * 2 + dt)));
}

static const size_t kStrLens[5] = {0, 1, 2, 3, 1000};
static inline std::string strOf(size_t n, char c)
{
    std::string s(n, c);
    for (size_t i = 0; i < n; ++i)
        s[i] = (i % 5 == 3) ? (char) (0x80 + (i + c) % 0x7F) : (char) ('a' + (i + c) % 26);   // every 5th character has the high bit set (UTF-8 text)
    return s;
}

static inline void cm(W& w, int prior, const size_t slen[4], size_t vlen)
{
    const bool nullViews = prior >= 40;   // prior + 40: empty strings are passed as default-constructed (null) string_views
    if (nullViews)
        prior -= 40;
    using T = A::CaptureModulePayload;
    auto hdr = [](T& p) {
        p.setUptime(0x0102030405060708ull); p.setGmIdentity(0x1112131415161718ull); p.setGmClockQuality(0x21222324); p.setCurrentUtcOffset(0x3132); p.setTimeSource(0x41);
        p.setDomainNumber(0x51); p.setGptpFlags(0x61);
    };
    const int prior0 = prior;
    const bool held = prior >= 20;   // the object lives inside a Packet (a base-class copy made by setPayload) and is reached through getPayload()
    prior %= 20;
    const bool look = prior >= 10;
    prior %= 10;
    T own;
    hdr(own);
    A::Packet holder;
    if (held)
        holder.setPayload(own);
    T& p = held ? static_cast<T&>(holder.getPayload()) : own;
    if (prior == 1)
        p.setData("x", "", "yy", "", {7});
    else if (prior == 2)
        p.setData(strOf(1200, 3), strOf(5, 4), strOf(7, 5), strOf(1100, 6), Bytes(9, 0xEE));
    else if (prior == 3)
        // the same section lengths in ROTATED order and as many vendor bytes: the payload has the same total size, only the section
        // boundaries move (no reallocation, no resize - nothing that would make a remembered offset look out of date)
        p.setData(strOf(slen[1], 7), strOf(slen[2], 8), strOf(slen[3], 9), strOf(slen[0], 10), Bytes(vlen, 0xE1));
    if (look)
    {
        g_sink = p.getDeviceDescription().size() + p.getSerialNumber().size() + p.getHardwareVersion().size() + p.getSoftwareVersion().size() + p.getVendorDataLength() +
                 (uint64_t) (uintptr_t) p.getVendorData() + T::isValidPayload(p.getRawPayload(), p.getLength());
        auto vd = p.getVendorDataStringView();
        g_sink = g_sink + vd.size();
    }
    std::string s[4];
    for (int i = 0; i < 4; ++i)
        s[i] = strOf(slen[i], (char) (i + 1));
    Bytes v = pat(vlen, 9);
    // the builder takes string_views: hand it views into ONE larger text in which every string is directly followed by
    // other characters (no NUL behind the view), as a slice of a config line or a fixed-width field would be
    std::string text = "#";
    size_t at[4];
    for (int i = 0; i < 4; ++i)
    {
        at[i] = text.size();
        text += s[i] + "/&";
    }
    // an EMPTY string is handed over as a view into the text (non-null data, length 0) or - variant nullViews - as a default-constructed
    // string_view, whose data() is null: both mean "the empty string"
    auto view = [&](int i) { return s[i].empty() && nullViews ? std::string_view{} : std::string_view(text.data() + at[i], s[i].size()); };
    if (nullViews && v.empty())
        C13_FINAL(p.setData(view(0), view(1), view(2), view(3), {}));
    else
        C13_FINAL(p.setData(view(0), view(1), view(2), view(3), v));
    w.add(mc::C_TRANS, 2);
    std::string k = "CaptureModulePayload";
    std::string_view got[4] = {p.getDeviceDescription(), p.getSerialNumber(), p.getHardwareVersion(), p.getSoftwareVersion()};
    const char* names[4] = {"device-description", "serial-number", "hardware-version", "software-version"};
    for (int i = 0; i < 4; ++i)
        if (std::string(got[i]) != s[i])
            w.fail("builder:string:" + k + ":" + names[i], ofmt("a %zu-char string was set, the getter returns %zu chars", s[i].size(), got[i].size()));
    if (p.getVendorDataLength() != vlen || (vlen && memcmp(p.getVendorData(), v.data(), vlen) != 0))
        w.fail("builder:vendor-data:" + k, ofmt("%zu vendor bytes set, getter reports %u", vlen, p.getVendorDataLength()));
    if (p.getUptime() != 0x0102030405060708ull || p.getGmIdentity() != 0x1112131415161718ull || p.getGmClockQuality() != 0x21222324 || p.getCurrentUtcOffset() != 0x3132 ||
        p.getTimeSource() != 0x41 || p.getDomainNumber() != 0x51 || p.getGptpFlags() != 0x61)
        w.fail("builder:header-field-not-preserved:" + k, "a header field changed");
    Bytes raw(p.getRawPayload(), p.getRawPayload() + p.getLength());
    // independent layout
    Bytes e(raw.begin(), raw.begin() + std::min<size_t>(raw.size(), ref::HDR_CM));
    for (int i = 0; i < 4; ++i)
    {
        ref::Section sec = ref::strSection(s[i]);
        ref::put16(e, sec.declared);
        ref::putbytes(e, sec.bytes);
    }
    ref::put16(e, vlen);
    ref::putbytes(e, v);
    if (raw.size() != e.size())
        w.fail("builder:payload-length:" + k, ofmt("getLength() = %zu, the layout (strings NUL-terminated, padded to even, vendor data) needs %zu", raw.size(), e.size()));
    else if (raw != e)
    {
        size_t q = 0;
        while (q < raw.size() && raw[q] == e[q])
            ++q;
        w.fail("builder:wire-image:" + k, ofmt("raw bytes differ from the independent layout at offset %zu (0x%02x vs 0x%02x)", q, raw[q], e[q]));
    }
    if (!T::isValidPayload(raw.data(), raw.size()))
        w.fail("builder:own-validity-check-rejects:" + k, "isValidPayload rejects the built payload");
    decodeCheck(w, "CaptureModulePayload", ref::MT_STATUS, ref::PT_CM, raw, A::PayloadType::cmStatMsg);
    T fresh;
    hdr(fresh);
    fresh.setData(s[0], s[1], s[2], s[3], v);
    if (Bytes(fresh.getRawPayload(), fresh.getRawPayload() + fresh.getLength()) != raw)
        w.fail("builder:raw-bytes-depend-on-history:" + k, ofmt("prior contents %d then setData differs from a fresh object", prior));
    w.outcome(mc::mix(mc::fnv_s(k), mc::mix(raw.size(), prior0)));
}

// Capture-module strings whose CONTENT could be mistaken for padding or formatting: blanks at the end, at the start, only blanks, tabs,
// a trailing dot / zero digit, high-bit bytes - a string is returned exactly as it was supplied
static const char* kSpecialStrings[] = {" ", "x ", " x", "CM-100  ", "v1 ", "\t", "a\t", "1.0", "1.", "0", "00", "\xFF", "\xC3\xA4 ", "  ", "a b", "\r\n", "x\n"};
static inline void cmSpecial(W& w, int sec, int k, int prior)
{
    using T = A::CaptureModulePayload;
    std::string s[4] = {"dev", "sn", "hw", "sw"};
    s[sec] = kSpecialStrings[k];
    T p;
    p.setUptime(7);
    if (prior)
        p.setData("previous-description", "previous-serial", "previous-hw", "previous-sw", {1, 2, 3, 4});
    Bytes v = {9, 8, 7};
    p.setData(s[0], s[1], s[2], s[3], v);
    w.add(mc::C_TRANS, 1);
    std::string_view got[4] = {p.getDeviceDescription(), p.getSerialNumber(), p.getHardwareVersion(), p.getSoftwareVersion()};
    const char* names[4] = {"device-description", "serial-number", "hardware-version", "software-version"};
    for (int i = 0; i < 4; ++i)
        if (std::string(got[i]) != s[i])
            w.fail(std::string("builder:string:CaptureModulePayload:") + names[i], ofmt("the %zu-character string %s was set, the getter returns %zu characters", s[i].size(), mc::hex((const uint8_t*) s[i].data(), s[i].size()).c_str(), got[i].size()));
    // the same through the raw bytes (a payload rebuilt from them) and through the decoder
    Bytes raw(p.getRawPayload(), p.getRawPayload() + p.getLength());
    T q(raw.data(), raw.size());
    std::string_view got2[4] = {q.getDeviceDescription(), q.getSerialNumber(), q.getHardwareVersion(), q.getSoftwareVersion()};
    for (int i = 0; i < 4; ++i)
        if (std::string(got2[i]) != s[i])
            w.fail(std::string("builder:string:CaptureModulePayload:") + names[i], "a payload rebuilt from the raw bytes returns another string than the one supplied");
    decodeCheck(w, "CaptureModulePayload", ref::MT_STATUS, ref::PT_CM, raw, A::PayloadType::cmStatMsg);
    w.outcome(mc::mix(mc::fnv_s("cmq"), mc::mix(sec * 64 + k, prior)));
}

static inline void iface(W& w, int prior, size_t sc, size_t vlen)
{
    using T = A::InterfacePayload;
    auto hdr = [](T& p) {
        p.setInterfaceId(0x01020304); p.setMsgTotalRx(0x11121314); p.setMsgTotalTx(0x21222324); p.setMsgDroppedRx(0x31323334); p.setMsgDroppedTx(0x41424344);
        p.setErrorsTotalRx(0x51525354); p.setErrorsTotalTx(0x61626364); p.setInterfaceType(0x71); p.setInterfaceStatus(T::InterfaceStatus::disabled);
        p.setFeatureSupportBitmask(0x81828384);
    };
    const int prior0 = prior;
    const bool held = prior >= 20;   // the object lives inside a Packet (a base-class copy made by setPayload) and is reached through getPayload()
    prior %= 20;
    const bool look = prior >= 10;
    prior %= 10;
    T own;
    hdr(own);
    A::Packet holder;
    if (held)
        holder.setPayload(own);
    T& p = held ? static_cast<T&>(holder.getPayload()) : own;
    if (prior == 4)
    {
        // same total size, the boundary between stream ids and vendor data moved by two
        Bytes s2(sc + 2, 0xB1), v2(vlen >= 2 ? vlen - 2 : vlen + 2, 0xC1);
        p.setData(s2.data(), (uint16_t) s2.size(), v2.data(), (uint16_t) v2.size());
    }
    if (prior == 1)
    {
        uint8_t s1[1] = {0xAA};
        p.setData(s1, 1, nullptr, 0);
    }
    else if (prior == 2)
    {
        Bytes s2(sc + 301, 0xBB), v2(vlen + 302, 0xCC);
        p.setData(s2.data(), (uint16_t) s2.size(), v2.data(), (uint16_t) v2.size());
    }
    else if (prior == 3)
    {
        Bytes s2(sc, 0xDD), v2(vlen, 0xDE);
        p.setData(s2.data(), (uint16_t) sc, v2.data(), (uint16_t) vlen);
    }
    if (look)
        g_sink = p.getStreamIdsCount() + (uint64_t) (uintptr_t) p.getStreamIds() + p.getVendorDataLength() + (uint64_t) (uintptr_t) p.getVendorData() + p.getInterfaceId() +
                 T::isValidPayload(p.getRawPayload(), p.getLength());
    Bytes s = pat(sc, 5), v = pat(vlen, 6);
    C13_FINAL(p.setData(s.data(), (uint16_t) sc, v.data(), (uint16_t) vlen));
    w.add(mc::C_TRANS, 2);
    std::string k = "InterfacePayload";
    if (p.getStreamIdsCount() != sc || (sc && memcmp(p.getStreamIds(), s.data(), sc) != 0))
        w.fail("builder:stream-ids:" + k, ofmt("%zu stream ids set, getter reports %u", sc, p.getStreamIdsCount()));
    if (p.getVendorDataLength() != vlen || (vlen && memcmp(p.getVendorData(), v.data(), vlen) != 0))
        w.fail("builder:vendor-data:" + k, ofmt("%zu vendor bytes set, getter reports %u", vlen, p.getVendorDataLength()));
    if (p.getInterfaceId() != 0x01020304 || p.getMsgTotalRx() != 0x11121314 || p.getMsgTotalTx() != 0x21222324 || p.getMsgDroppedRx() != 0x31323334 ||
        p.getMsgDroppedTx() != 0x41424344 || p.getErrorsTotalRx() != 0x51525354 || p.getErrorsTotalTx() != 0x61626364 || p.getInterfaceType() != 0x71 ||
        p.getInterfaceStatus() != T::InterfaceStatus::disabled || p.getFeatureSupportBitmask() != 0x81828384)
        w.fail("builder:header-field-not-preserved:" + k, "a header field changed");
    Bytes raw(p.getRawPayload(), p.getRawPayload() + p.getLength());
    Bytes e(raw.begin(), raw.begin() + std::min<size_t>(raw.size(), ref::HDR_IF));
    ref::put16(e, sc);
    ref::putbytes(e, s);
    if (sc % 2)
        ref::put8(e, 0);
    ref::put16(e, vlen);
    ref::putbytes(e, v);
    if (raw.size() != e.size())
        w.fail("builder:payload-length:" + k, ofmt("getLength() = %zu, the layout needs %zu", raw.size(), e.size()));
    else if (raw != e)
    {
        size_t q = 0;
        while (q < raw.size() && raw[q] == e[q])
            ++q;
        bool pad = sc % 2 && q == ref::HDR_IF + 2 + sc;
        w.fail(pad ? "builder:stream-id-pad-byte-not-zero:" + k : "builder:wire-image:" + k,
               ofmt("prior contents %d, %zu stream ids, %zu vendor bytes: raw byte %zu is 0x%02x, the layout prescribes 0x%02x", prior, sc, vlen, q, raw[q], e[q]));
    }
    if (!T::isValidPayload(raw.data(), raw.size()))
        w.fail("builder:own-validity-check-rejects:" + k, "isValidPayload rejects the built payload");
    decodeCheck(w, "InterfacePayload", ref::MT_STATUS, ref::PT_IF, raw, A::PayloadType::ifStatMsg);
    T fresh;
    hdr(fresh);
    fresh.setData(s.data(), (uint16_t) sc, v.data(), (uint16_t) vlen);
    if (Bytes(fresh.getRawPayload(), fresh.getRawPayload() + fresh.getLength()) != raw)
        w.fail("builder:raw-bytes-depend-on-history:" + k, ofmt("prior contents %d then setData(%zu ids, %zu vendor bytes) differs from a fresh object", prior, sc, vlen));
    w.outcome(mc::mix(mc::fnv_s(k), mc::mix(raw.size(), prior0)));
}

// A builder object that was MOVED FROM (e.g. pushed into a queue with std::move) and is then used again: setData, then the header
// fields. It is an object of its class like any other - the result is accepted by the class's own validity check and the decoder,
// and its raw bytes equal those of a fresh object treated the same way.
template <class T, class Hdr, class Set>
static void movedFrom(W& w, const char* cls, uint8_t mt, uint8_t pt, uint32_t fullType, size_t len, Hdr hdr, Set set)
{
    T p;
    hdr(p);
    Bytes first = pat(7, 6);
    set(p, first);
    T taken(std::move(p));
    g_sink = taken.getLength();
    Bytes d = pat(len, 5);
    set(p, d);
    hdr(p);
    w.add(mc::C_TRANS, 3);
    std::string k = cls;
    T fresh;
    set(fresh, d);
    hdr(fresh);
    Bytes raw(p.getRawPayload(), p.getRawPayload() + p.getLength()), fr(fresh.getRawPayload(), fresh.getRawPayload() + fresh.getLength());
    if (raw != fr)
        w.fail("builder:raw-bytes-depend-on-history:" + k, ofmt("moved-from object, then setData(%zu bytes) and the header fields: raw %s..., fresh object: %s...", len,
                                                              mc::hex(raw.data(), std::min<size_t>(raw.size(), 40)).c_str(), mc::hex(fr.data(), std::min<size_t>(fr.size(), 40)).c_str()));
    if (p.getType().getType() != fullType || !p.isValid())
        w.fail("builder:moved-from-object-lost-its-type:" + k, ofmt("a moved-from %s that was given data again reports type 0x%x, isValid() = %d", cls, p.getType().getType(), (int) p.isValid()));
    if (!T::isValidPayload(raw.data(), raw.size()))
        w.fail("builder:own-validity-check-rejects:" + k, "isValidPayload rejects the payload built on a moved-from object");
    {
        // through a packet and the decoder, as the object itself (not its raw bytes) would be sent
        A::Packet pk;
        pk.setPayload(p);
        if (pk.getPayloadType() != pt || (uint8_t) pk.getMessageType() != mt)
            w.fail("builder:moved-from-object-lost-its-type:" + k, ofmt("a packet given the rebuilt moved-from %s reports message type 0x%x, payload type 0x%x", cls, (unsigned) pk.getMessageType(), pk.getPayloadType()));
    }
    decodeCheck(w, cls, mt, pt, raw, fullType);
    w.outcome(mc::mix(mc::fnv_s(k), mc::mix(len, 77)));
}

static inline void runCase(W& w, const std::string& cs)
{
    auto kv = mc::kv_parse(cs);
    std::string cls = kv["cls"];
    g_abortN = kv.count("abort") ? atoi(kv["abort"].c_str()) : 0;
    g_abortFired = false;
    struct Reset { ~Reset() { g_abortN = 0; } } reset;
    int prior = atoi(kv["prior"].c_str());
    size_t len = strtoull(kv["len"].c_str(), nullptr, 10);
    int hv = atoi(kv["hv"].c_str());
    if (cls == "cmq")
    {
        cmSpecial(w, atoi(kv["sec"].c_str()), atoi(kv["k"].c_str()), prior);
        return;
    }
    if (kv.count("moved"))
    {
        auto setB = [](auto& p, const Bytes& d) { p.setData(d.data(), (uint8_t) d.size()); };
        if (cls == "can")
            movedFrom<A::CanPayload>(w, "CanPayload", ref::MT_DATA, ref::PT_CAN, A::PayloadType::can, len, [](A::CanPayload& p) { p.setId(0x123); p.setIde(true); }, setB);
        else if (cls == "canfd")
            movedFrom<A::CanFdPayload>(w, "CanFdPayload", ref::MT_DATA, ref::PT_CANFD, A::PayloadType::canFd, len, [](A::CanFdPayload& p) { p.setId(0x77); p.setCrc(0x1ABCDE); }, setB);
        else if (cls == "lin")
            movedFrom<A::LinPayload>(w, "LinPayload", ref::MT_DATA, ref::PT_LIN, A::PayloadType::lin, len, [](A::LinPayload& p) { p.setLinId(0x2A); p.setChecksum(0xC3); }, setB);
        else if (cls == "eth")
            movedFrom<A::EthernetPayload>(w, "EthernetPayload", ref::MT_DATA, ref::PT_ETH, A::PayloadType::ethernet, len, [](A::EthernetPayload& p) { p.setFlags(0x00C4); },
                                          [](A::EthernetPayload& p, const Bytes& d) { p.setData(d.data(), (uint16_t) d.size()); });
        else if (cls == "analog")
            movedFrom<A::AnalogPayload>(w, "AnalogPayload", ref::MT_DATA, ref::PT_ANALOG, A::PayloadType::analog, len & ~(size_t) 1, [](A::AnalogPayload& p) { p.setSampleInterval(0.25f); },
                                        [](A::AnalogPayload& p, const Bytes& d) { p.setData(d.data(), d.size()); });
        else if (cls == "cm")
            movedFrom<A::CaptureModulePayload>(w, "CaptureModulePayload", ref::MT_STATUS, ref::PT_CM, A::PayloadType::cmStatMsg, len, [](A::CaptureModulePayload& p) { p.setUptime(0x0102030405060708ull); },
                                               [](A::CaptureModulePayload& p, const Bytes& d) { std::string s(d.begin(), d.end()); for (auto& ch : s) ch = (char) ('a' + (uint8_t) ch % 26); p.setData(s, "sn", "", s, d); });
        else if (cls == "if")
            movedFrom<A::InterfacePayload>(w, "InterfacePayload", ref::MT_STATUS, ref::PT_IF, A::PayloadType::ifStatMsg, len, [](A::InterfacePayload& p) { p.setInterfaceId(0x01020304); },
                                           [](A::InterfacePayload& p, const Bytes& d) { p.setData(d.data(), (uint16_t) d.size(), d.data(), (uint16_t) (d.size() / 2)); });
        return;
    }
    if (cls == "can") canLike<A::CanPayload>(w, "CanPayload", ref::PT_CAN, A::PayloadType::can, prior, len, hv);
    else if (cls == "canfd") canLike<A::CanFdPayload>(w, "CanFdPayload", ref::PT_CANFD, A::PayloadType::canFd, prior, len, hv);
    else if (cls == "lin") lin(w, prior, len, hv);
    else if (cls == "eth") eth(w, prior, len);
    else if (cls == "analog") analog(w, prior, len, atoi(kv["dt"].c_str()));
    else if (cls == "cm")
    {
        auto p = mc::split(kv["s"], ',');
        int si[4] = {0, 0, 0, 0};
        for (int i = 0; i < 4 && i < (int) p.size(); ++i)
            si[i] = atoi(p[i].c_str());
        size_t sl[4];
        for (int i = 0; i < 4; ++i)
            sl[i] = kStrLens[si[i]];
        cm(w, prior, sl, strtoull(kv["v"].c_str(), nullptr, 10));
    }
    else if (cls == "cmx")
    {
        // ONE section at a byte / sign boundary of its 16-bit length prefix, the others short
        int sec = atoi(kv["sec"].c_str());
        size_t sl[4] = {2, 3, 1, 2};
        size_t v = 3;
        if (sec < 4)
            sl[sec] = len;
        else
            v = len;
        cm(w, prior, sl, v);
    }
    else if (cls == "if")
        iface(w, prior, strtoull(kv["sc"].c_str(), nullptr, 10), strtoull(kv["v"].c_str(), nullptr, 10));
}

}  // namespace c13

static int runC13(mc::Run& run, const mc::Options& opt)
{
    const bool thorough = opt.tier == "thorough";
    run.rule = "per payload class: a prior state {none; a first setData with shorter, longer or same-length data; an object constructed from a raw image whose data is followed by trailing bytes, with the same or half the data length} followed by the setData under test; CAN / "
               "CAN-FD (x 4 header variants incl. the RTR/RRS bit set before the data) / LIN every length 0..255; Ethernet / analog boundary lengths up to 65529 (thorough: every length 0..1600); capture-module 5^4 string-length "
               "combinations x 4 vendor lengths + each of the 5 sections alone at 17 lengths around 0x7F/0x80, 0xFF/0x100, 0x17F/0x180, 0x7FFF/0x8000; interface 9 stream-id counts x 6 vendor lengths; oracle: getters, preserved header fields, independent wire image, DLC "
               "table, own validity check, real Decoder, raw bytes == fresh object; distinct = distinct (class, raw size, prior) outcomes";
    run.replay_case = [](W& w, const std::string& cs) { c13::runCase(w, cs); };
    if (!opt.case_file.empty())
    {
        std::ifstream in(opt.case_file);
        std::string cs;
        std::getline(in, cs);
        return run.run_single(cs);
    }
    std::vector<std::string> cases;
    for (int prior : {0, 1, 2, 3, 7, 11, 12, 13, 17, 20, 21, 22, 27, 33, 41, 42, 52, 62})
    {
        if (prior >= 40)
        {
            // capture-module builder only: empty strings as null views over prior contents
            for (int a = 0; a < 5; ++a)
                for (int b = 0; b < 5; ++b)
                    for (int c = 0; c < 5; ++c)
                        for (int d = 0; d < 5; ++d)
                            if (!a || !b || !c || !d)
                                for (size_t v = 0; v < 2; ++v)
                                    cases.push_back(ofmt("cls=cm;prior=%d;s=%d,%d,%d,%d;v=%zu", prior, a, b, c, d, v));
            continue;
        }
        for (size_t len = 0; len <= 255; ++len)
        {
            cases.push_back(ofmt("cls=lin;prior=%d;len=%zu", prior, len));
            if (prior % 10)
                for (int hv = 1; hv <= 2; ++hv)
                    cases.push_back(ofmt("cls=lin;prior=%d;len=%zu;hv=%d", prior, len, hv));
            for (const char* c : {"can", "canfd"})
                for (int hv = 0; hv < 4; ++hv)
                    cases.push_back(ofmt("cls=%s;prior=%d;len=%zu;hv=%d", c, prior, len, hv));
        }
        std::vector<size_t> big = {0, 1, 2, 3, 7, 8, 255, 256, 1499, 1500, 65526, 65528, 65529};
        if (thorough)
            for (size_t l = 0; l <= 1600; ++l)
                big.push_back(l);
        for (size_t len : big)
        {
            cases.push_back(ofmt("cls=eth;prior=%d;len=%zu", prior, len));
            for (int dt = 0; dt < 2; ++dt)
                cases.push_back(ofmt("cls=analog;prior=%d;len=%zu;dt=%d", prior, std::min<size_t>(len, 65519), dt));
        }
        for (size_t sc : {(size_t) 0, (size_t) 1, (size_t) 2, (size_t) 3, (size_t) 4, (size_t) 5, (size_t) 255, (size_t) 256, (size_t) 1001})
            for (size_t v : {(size_t) 0, (size_t) 1, (size_t) 2, (size_t) 3, (size_t) 255, (size_t) 1000})
                cases.push_back(ofmt("cls=if;prior=%d;sc=%zu;v=%zu", prior, sc, v));
        if (prior % 10 == 3)
            for (size_t sc : {(size_t) 0, (size_t) 1, (size_t) 2, (size_t) 3, (size_t) 4, (size_t) 5, (size_t) 255, (size_t) 256, (size_t) 1001})
                for (size_t v : {(size_t) 0, (size_t) 1, (size_t) 2, (size_t) 3, (size_t) 255, (size_t) 1000})
                    cases.push_back(ofmt("cls=if;prior=%d;sc=%zu;v=%zu", prior + 1, sc, v));   // prior kind 4 (14): same total size, boundary moved
        if (true)
            for (int a = 0; a < 5; ++a)
                for (int b = 0; b < 5; ++b)
                    for (int c = 0; c < 5; ++c)
                        for (int d = 0; d < 5; ++d)
                            for (size_t v = 0; v < 4; ++v)
                                cases.push_back(ofmt("cls=cm;prior=%d;s=%d,%d,%d,%d;v=%zu", prior, a, b, c, d, v));
    }
    // prior state constructed from a raw image with trailing bytes (kinds 4: same data length as the new data, 5: half of it)
    for (int prior : {4, 5, 14, 15, 24})
    {
        for (size_t len = 0; len <= 255; ++len)
        {
            cases.push_back(ofmt("cls=lin;prior=%d;len=%zu", prior, len));
            for (const char* c : {"can", "canfd"})
                for (int hv = 0; hv < 4; ++hv)
                    cases.push_back(ofmt("cls=%s;prior=%d;len=%zu;hv=%d", c, prior, len, hv));
        }
        for (size_t len : {(size_t) 0, (size_t) 1, (size_t) 2, (size_t) 3, (size_t) 7, (size_t) 8, (size_t) 255, (size_t) 256, (size_t) 1499, (size_t) 1500, (size_t) 65526})
            cases.push_back(ofmt("cls=eth;prior=%d;len=%zu", prior, len));
    }
    // capture-module sections at the byte / sign boundaries of the 16-bit length prefix (declared length = characters + NUL,
    // padded to even): one section at a time
    for (int prior : {0, 1, 2, 3, 11, 12, 13, 20, 32})
        for (int sec = 0; sec < 5; ++sec)
            for (size_t len : {(size_t) 124, (size_t) 125, (size_t) 126, (size_t) 127, (size_t) 128, (size_t) 200, (size_t) 252, (size_t) 253, (size_t) 254, (size_t) 255, (size_t) 256,
                               (size_t) 382, (size_t) 383, (size_t) 384, (size_t) 32766, (size_t) 32767, (size_t) 32768})
                cases.push_back(ofmt("cls=cmx;prior=%d;sec=%d;len=%zu", prior, sec, len));
    // strings whose content looks like padding or formatting, in every section
    for (int sec = 0; sec < 4; ++sec)
        for (size_t k = 0; k < sizeof(c13::kSpecialStrings) / sizeof(c13::kSpecialStrings[0]); ++k)
            for (int prior = 0; prior < 2; ++prior)
                cases.push_back(ofmt("cls=cmq;sec=%d;k=%zu;prior=%d;len=0", sec, k, prior));
    // builder objects that were moved from and are used again
    for (const char* c : {"can", "canfd", "lin", "eth", "analog", "cm", "if"})
        for (size_t len : {(size_t) 0, (size_t) 1, (size_t) 8, (size_t) 64, (size_t) 200})
            cases.push_back(ofmt("cls=%s;moved=1;prior=0;len=%zu", c, len));
    // the builder call under test aborted by the failure of its n-th allocation (every n) and then repeated
    {
        std::vector<std::string> ab;
        for (int prior : {0, 2, 12, 20, 22})
        {
            for (size_t len : {(size_t) 0, (size_t) 1, (size_t) 8, (size_t) 64, (size_t) 255})
            {
                ab.push_back(ofmt("cls=lin;prior=%d;len=%zu", prior, len));
                ab.push_back(ofmt("cls=can;prior=%d;len=%zu;hv=0", prior, len));
                ab.push_back(ofmt("cls=canfd;prior=%d;len=%zu;hv=1", prior, len));
                ab.push_back(ofmt("cls=eth;prior=%d;len=%zu", prior, len * 6));
                ab.push_back(ofmt("cls=analog;prior=%d;len=%zu;dt=%zu", prior, len * 4, len % 2));
            }
            for (const char* sl : {"0,0,0,0", "1,2,3,4", "3,0,4,1", "4,4,4,4"})
                ab.push_back(ofmt("cls=cm;prior=%d;s=%s;v=%d", prior, sl, prior % 3));
            for (size_t sc : {(size_t) 0, (size_t) 3, (size_t) 256})
                for (size_t v : {(size_t) 0, (size_t) 3, (size_t) 255})
                    ab.push_back(ofmt("cls=if;prior=%d;sc=%zu;v=%zu", prior, sc, v));
        }
        run.round("the builder call under test aborted by the failure of its n-th allocation (every n) and repeated: 5 prior states x lengths x 7 classes", ab.size(), [&, ab](W& w, uint64_t o) {
            for (int n = 1; n < 60; ++n)
            {
                std::string cs = ab[o] + ofmt(";abort=%d", n);
                {
                    W probe;
                    probe.single = true;
                    c13::runCase(probe, cs);
                    if (!c13::g_abortFired)
                        break;
                }
                auto desc = [&] { return cs; };
                if (!w.begin_case(desc))
                    continue;
                c13::runCase(w, cs);
                w.add(mc::C_TRACES, 1);
                w.add(mc::C_STATES, 2);
            }
        });
    }
    const size_t chunk = 64;
    run.round("builder runs x prior contents", (cases.size() + chunk - 1) / chunk, [&](W& w, uint64_t o) {
        for (size_t i = o * chunk; i < std::min(cases.size(), (o + 1) * chunk); ++i)
        {
            auto desc = [&] { return cases[i]; };
            if (!w.begin_case(desc))
                continue;
            c13::runCase(w, cases[i]);
            w.add(mc::C_TRACES, 1);
            w.add(mc::C_STATES, 1);
        }
    });
    return run.finish();
}
