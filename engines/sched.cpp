// Engine `sched` (C19): thread bodies driving their own Encoder / Decoder / Status / builders and the
// static TECMP decoder; (a) preemption-bounded exhaustive schedule exploration under the serialising
// scheduler of mc/sched_rt.cpp, (b) free-running mode for the ThreadSanitizer pass
// (-DSCHED_FREE_RUNNING, no scheduler linked).
#include <asam_cmp/encoder.h>
#include <asam_cmp/status.h>
#include <asam_cmp/tecmp_decoder.h>

#include <dlfcn.h>
#include <sys/wait.h>

#include <thread>

#include "engines/wire_common.h"
#ifndef SCHED_FREE_RUNNING
#include "mc/sched_rt.h"
#define API_POINT() srt::apiPoint()
#else
#define API_POINT() ((void) 0)
#endif

namespace {

struct Arg
{
    int kind = 0;
    uint32_t u = 0;                 // thread-unique value: cross-talk changes a digest
    std::vector<Bytes> frames;      // inputs prepared before the concurrent phase (read-only afterwards)
    uint64_t digest = 0;
    // hand-over pair (kinds deccont / consume): a decoder that has already returned packets, and those packets, now owned by
    // another thread. Rebuilt before every execution (reprep) on the main thread, i.e. handed over before the threads start.
    std::unique_ptr<Decoder> dec;
    std::vector<std::shared_ptr<Packet>> held;
    size_t split = 0;               // frames[0..split) were decoded before the concurrent phase
    // copy family (kinds enccopy / deccopy / statuscopy): the thread's object is a COPY of a prototype that every other thread of
    // the same kind also holds a copy of (one clone per stream); copied before every execution on the main thread
    std::unique_ptr<Encoder> enc;
    std::unique_ptr<Status> st;
    // shared-input family (kinds encshared / statusshared / decshared): the INPUTS - const packets, const frame buffers - are the
    // same objects for every thread (read-only sharing of inputs is ordinary use); rebuilt before every execution so that no
    // earlier execution has touched them
    const std::vector<Packet>* sharedPackets = nullptr;
    const std::vector<Bytes>* sharedFrames = nullptr;
};

W& quietW()
{
    static thread_local W w;
    w.single = true;
    w.single_fails.clear();
    return w;
}

uint64_t digestPacket(const Packet& p)
{
    obs::PObs o = obs::observe(p);
    uint64_t h = obs::digest(o);
    if (o.valid)
        h = mc::mix(h, sweepTyped(quietW(), p.getPayload(), o.fullType));
    return h;
}

Packet genericPacket(uint8_t mt, size_t len, uint32_t u, unsigned tag)
{
    Packet p;
    Bytes d = patt(len, u + tag);
    p.setPayload(Payload(PayloadType(static_cast<CmpHeader::MessageType>(mt), 0xFE), d.data(), d.size()));
    p.setTimestamp(0x1000 + u * 16 + tag);
    p.setInterfaceId(u * 256 + tag);
    p.setVendorId((uint16_t) (u + tag));
    return p;
}

void bodyEnc(int, void* a)
{
    Arg& A = *static_cast<Arg*>(a);
    uint64_t h = 1;
    Encoder e;
    e.setDeviceId((uint16_t) A.u);
    API_POINT();
    e.setStreamId((uint8_t) (A.u & 0xFF));
    API_POINT();
    CaptureModulePayload cm;
    cm.setData("dev" + std::to_string(A.u), "sn", "hw", "sw", {(uint8_t) A.u});
    Packet st;
    st.setPayload(cm);
    st.setVendorId((uint16_t) A.u);
    std::vector<Packet> batch = {genericPacket(1, 5, A.u, 1), st, genericPacket(1, 100, A.u, 2)};
    for (auto& p : batch)
        p.setVersion(2);   // not the default version: a frame header built from defaults instead of the packet shows
    API_POINT();
    auto frames = e.encode(batch.begin(), batch.end(), DataContext{0, 64});
    API_POINT();
    for (auto& f : frames)
        h = mc::fnv(f.data(), f.size(), h);
    auto frames2 = e.encode(batch[2], DataContext{64, 100});
    API_POINT();
    for (auto& f : frames2)
        h = mc::fnv(f.data(), f.size(), h);
    h = mc::mix(h, e.getSequenceCounter());
    A.digest = h;
}

void prepDec(Arg& A)
{
    ref::FrameHdr fh;
    fh.device = (uint16_t) A.u; fh.stream = 3; fh.msgType = ref::MT_DATA; fh.seq = 10;
    ref::CanF c;
    c.idword = 0x100 + A.u; c.dataLen = 8; c.dlc = 8; c.data = patt(8, A.u);
    ref::LinF l;
    l.pid = (uint8_t) (A.u & 0x3F); l.dataLen = 4; l.data = patt(4, A.u + 1);
    A.frames.push_back(ref::buildFrame(fh, {ref::mkMsg(ref::PT_CAN, ref::canPayload(c), 0, A.u, A.u), ref::mkMsg(ref::PT_LIN, ref::linPayload(l), 0, A.u + 1, A.u)}));
    // F-I-L Ethernet message
    ref::EthF e;
    e.dataLen = 24; e.data = patt(24, A.u + 2);
    Bytes eth = ref::ethPayload(e);
    for (int s = 0; s < 3; ++s)
    {
        fh.seq = (uint16_t) (11 + s);
        Bytes part(eth.begin() + s * 10, eth.begin() + s * 10 + 10);
        A.frames.push_back(ref::buildFrame(fh, {ref::mkMsg(ref::PT_ETH, part, (uint8_t) ((s == 0 ? 1 : (s == 2 ? 3 : 2)) << 2), A.u + 2, A.u)}));
    }
    fh.msgType = ref::MT_STATUS; fh.seq = 20;
    ref::CmF cmf;
    cmf.uptime = A.u;
    cmf.s[0] = ref::strSection("device" + std::to_string(A.u));
    for (int i = 1; i < 4; ++i)
        cmf.s[i] = ref::strSection("x");
    ref::IfF iff;
    iff.ifid = A.u; iff.streamDeclared = 2; iff.streams = {1, 2};
    A.frames.push_back(ref::buildFrame(fh, {ref::mkMsg(ref::PT_CM, ref::cmPayload(cmf), 0, A.u + 3, A.u), ref::mkMsg(ref::PT_IF, ref::ifPayload(iff), 0, A.u + 4, A.u)}));
}

void bodyDec(int, void* a)
{
    Arg& A = *static_cast<Arg*>(a);
    uint64_t h = 2;
    Decoder d;
    for (auto& f : A.frames)
    {
        auto pk = d.decode(f.data(), f.size());
        API_POINT();
        h = mc::mix(h, pk.size());
        for (auto& p : pk)
            h = mc::mix(h, digestPacket(*p));
    }
    A.digest = h;
}

void prepTecmp(Arg& A)
{
    ref::TecmpHdr h;
    h.device = (uint16_t) (A.u & 0xFF); h.ifid = A.u; h.ts = 0x1000 + A.u; h.msgType = ref::TM_DATA; h.dataType = ref::TD_CAN;
    A.frames.push_back(ref::tecmpFrame(h, ref::tecmpCanPayload(0x100 + A.u, 8, patt(8, A.u), 2)));
    h.dataType = ref::TD_CANFD;
    A.frames.push_back(ref::tecmpFrame(h, ref::tecmpCanPayload(0x200 + A.u, 12, patt(12, A.u + 1), 3)));
    A.frames.push_back(ref::tecmpFrame(h, ref::tecmpCanPayload(0x300 + A.u, (uint8_t) (9 + A.u % 3), patt(9 + A.u % 3, A.u + 5), 3)));   // no DLC code for this length
    h.dataType = ref::TD_LIN;
    A.frames.push_back(ref::tecmpFrame(h, ref::tecmpLinPayload((uint8_t) A.u, 4, patt(4, A.u + 2), true, 0x5A)));
    h.dataType = 0; h.msgType = ref::TM_CM_STATUS;
    {
        Bytes p = patt(36, A.u + 3);
        ref::wr(&p[8], 1000000 + A.u, 4);
        A.frames.push_back(ref::tecmpFrame(h, p));
    }
    h.msgType = ref::TM_BUS_STATUS;
    A.frames.push_back(ref::tecmpFrame(h, patt(12 + 24, A.u + 4)));
}

void bodyTecmp(int, void* a)
{
    Arg& A = *static_cast<Arg*>(a);
    uint64_t h = 3;
    for (auto& f : A.frames)
    {
        auto pk = TECMP::Decoder::Decode(f.data(), f.size());
        API_POINT();
        h = mc::mix(h, pk.size());
        for (auto& p : pk)
            h = mc::mix(h, digestPacket(*p));
    }
    A.digest = h;
}

void bodyStatus(int, void* a)
{
    Arg& A = *static_cast<Arg*>(a);
    uint64_t h = 4;
    Status st;
    for (int d = 0; d < 2; ++d)
    {
        CaptureModulePayload cm;
        cm.setData("dev" + std::to_string(A.u + d), "sn", "hw", "sw", {});
        Packet p;
        p.setPayload(cm);
        p.setDeviceId((uint16_t) (A.u + d));
        st.update(p);
        API_POINT();
        // the first device gets two interfaces, each reported twice (lookups that miss, that hit slot 0 and that hit slot 1);
        // the second device reports no interface
        for (int r = 0; r < (d == 0 ? 4 : 0); ++r)
        {
            InterfacePayload ip;
            ip.setInterfaceId(A.u * 2 + d + 100 * (r % 2));
            ip.setMsgTotalRx((uint32_t) r);
            ip.setData(nullptr, 0, nullptr, 0);
            Packet q;
            q.setPayload(ip);
            q.setDeviceId((uint16_t) (A.u + d));
            st.update(q);
            API_POINT();
        }
    }
    st.removeDeviceById((uint16_t) (A.u + 1));
    API_POINT();
    for (size_t i = 0; i < st.getDeviceStatusCount(); ++i)
    {
        h = mc::mix(h, digestPacket(st.getDeviceStatus(i).getPacket()));
        for (size_t j = 0; j < st.getDeviceStatus(i).getInterfaceStatusCount(); ++j)
            h = mc::mix(h, digestPacket(st.getDeviceStatus(i).getInterfaceStatus(j).getPacket()));
    }
    A.digest = h;
}

void bodyBuild(int, void* a)
{
    Arg& A = *static_cast<Arg*>(a);
    uint64_t h = 5;
    CaptureModulePayload cm;
    cm.setUptime(A.u);
    cm.setData("description-" + std::to_string(A.u), std::to_string(A.u * 7), "hw" + std::to_string(A.u), "v1." + std::to_string(A.u), {(uint8_t) A.u, 2, 3});
    API_POINT();
    for (auto sv : {cm.getDeviceDescription(), cm.getSerialNumber(), cm.getHardwareVersion(), cm.getSoftwareVersion()})
        h = mc::fnv(sv.data(), sv.size(), h);
    API_POINT();
    InterfacePayload ip;
    uint8_t s[3] = {(uint8_t) A.u, 2, 3};
    ip.setInterfaceId(A.u);
    ip.setData(s, 3, s, 2);
    API_POINT();
    h = mc::fnv(ip.getRawPayload(), ip.getLength(), h);
    h = mc::fnv(cm.getRawPayload(), cm.getLength(), h);
    CanFdPayload c;
    Bytes d = patt(64, A.u);
    c.setId(A.u);
    // lengths with and without a DLC code, different per thread (first use of a value inside the process may fill a table)
    for (size_t len : {(size_t) 12, (size_t) (9 + A.u % 3), (size_t) (13 + A.u % 2), (size_t) 64, (size_t) (33 + A.u % 7)})
    {
        c.setData(d.data(), (uint8_t) len);
        h = mc::mix(h, (uint64_t) c.getDlc() << 8 | c.getDataLength());
        API_POINT();
    }
    c.setData(d.data(), 12);
    Packet p;
    p.setPayload(c);
    Packet q = p;
    h = mc::mix(h, digestPacket(q));
    h = mc::mix(h, p == q);
    A.digest = h;
}

// ---- hand-over pair ----------------------------------------------------------------------------------------------------
// Packets a decoder has returned are values owned by the caller: another thread may read, copy, feed them to its own Status /
// Encoder and destroy them while the decoder's owner goes on decoding. deccont = the decoder's owner continuing, consume = the
// thread that was given the packets returned so far.
void prepHand(Arg& A)
{
    ref::FrameHdr fh;
    fh.device = (uint16_t) A.u; fh.stream = 9; fh.msgType = ref::MT_DATA; fh.seq = 30;
    auto can = [&](unsigned k) {
        ref::CanF c;
        c.idword = 0x300 + A.u + k; c.dataLen = 8; c.dlc = 8; c.data = patt(8, A.u + k);
        return ref::mkMsg(ref::PT_CAN, ref::canPayload(c), 0, A.u + k, A.u);
    };
    // before the hand-over: 2 frames with 2 unsegmented messages each, a status frame, the first segment of a message
    for (unsigned k = 0; k < 2; ++k)
    {
        fh.seq++;
        A.frames.push_back(ref::buildFrame(fh, {can(2 * k), can(2 * k + 1)}));
    }
    {
        ref::FrameHdr sh = fh;
        sh.msgType = ref::MT_STATUS; sh.seq = 60;
        ref::CmF cmf;
        cmf.uptime = A.u;
        cmf.s[0] = ref::strSection("handover" + std::to_string(A.u));
        for (int i = 1; i < 4; ++i)
            cmf.s[i] = ref::strSection("y");
        ref::IfF iff;
        iff.ifid = A.u; iff.streamDeclared = 2; iff.streams = {3, 4};
        A.frames.push_back(ref::buildFrame(sh, {ref::mkMsg(ref::PT_CM, ref::cmPayload(cmf), 0, A.u + 30, A.u), ref::mkMsg(ref::PT_IF, ref::ifPayload(iff), 0, A.u + 31, A.u)}));
    }
    ref::EthF e;
    e.dataLen = 24; e.data = patt(24, A.u + 7);
    Bytes eth = ref::ethPayload(e);
    fh.seq = 70;
    A.frames.push_back(ref::buildFrame(fh, {ref::mkMsg(ref::PT_ETH, Bytes(eth.begin(), eth.begin() + 10), (uint8_t) (1 << 2), A.u + 40, A.u)}));
    A.split = A.frames.size();
    // after the hand-over: the rest of the segmented message, then 3 more aggregated frames
    fh.seq = 71;
    A.frames.push_back(ref::buildFrame(fh, {ref::mkMsg(ref::PT_ETH, Bytes(eth.begin() + 10, eth.begin() + 20), (uint8_t) (2 << 2), A.u + 40, A.u)}));
    fh.seq = 72;
    A.frames.push_back(ref::buildFrame(fh, {ref::mkMsg(ref::PT_ETH, Bytes(eth.begin() + 20, eth.end()), (uint8_t) (3 << 2), A.u + 40, A.u)}));
    for (unsigned k = 10; k < 13; ++k)
    {
        fh.seq++;
        A.frames.push_back(ref::buildFrame(fh, {can(2 * k), can(2 * k + 1)}));
    }
}

// (re)builds the decoder and the packets it has returned so far; the packets go to `to` (the consumer, or the decoder's own Arg
// when no consumer takes part, where they simply stay alive)
void handOver(Arg& producer, Arg& to)
{
    to.held.clear();
    producer.dec = std::make_unique<Decoder>();
    std::vector<std::shared_ptr<Packet>> got;
    for (size_t i = 0; i < producer.split; ++i)
        for (auto& p : producer.dec->decode(producer.frames[i].data(), producer.frames[i].size()))
            got.push_back(std::move(p));
    to.held = std::move(got);
}

void bodyDecCont(int, void* a)
{
    Arg& A = *static_cast<Arg*>(a);
    uint64_t h = 6;
    for (size_t i = A.split; i < A.frames.size(); ++i)
    {
        auto pk = A.dec->decode(A.frames[i].data(), A.frames[i].size());
        h = mc::mix(h, pk.size());
        for (auto& p : pk)
            h = mc::mix(h, digestPacket(*p));
        pk.clear();   // the owner drops its own packets at once: the next call may recycle whatever the decoder keeps
        API_POINT();
    }
    A.digest = h;
}

void bodyConsume(int, void* a)
{
    Arg& A = *static_cast<Arg*>(a);
    uint64_t h = 7;
    Status st;
    Encoder e;
    e.setDeviceId((uint16_t) A.u);
    for (auto& sp : A.held)
    {
        if (!sp)
            continue;
        h = mc::mix(h, digestPacket(*sp));
        Packet copy(*sp);
        st.update(*sp);
        auto fr = e.encode(copy, DataContext{0, 1500});
        for (auto& f : fr)
            h = mc::fnv(f.data(), f.size(), h);
        h = mc::mix(h, digestPacket(*sp));   // still the same while the decoder works on
        sp.reset();                          // last reference: the packet dies on THIS thread
        API_POINT();
    }
    for (size_t i = 0; i < st.getDeviceStatusCount(); ++i)
        h = mc::mix(h, digestPacket(st.getDeviceStatus(i).getPacket()));
    A.digest = h;
}

// ---- copy family -------------------------------------------------------------------------------------------------------
// Objects obtained by copying one configured prototype are distinct objects: each thread works on its own copy.
void bodyEncCopy(int, void* a)
{
    Arg& A = *static_cast<Arg*>(a);
    uint64_t h = 8;
    Encoder& e = *A.enc;
    e.setStreamId((uint8_t) (A.u & 0xFF));
    API_POINT();
    std::vector<Packet> batch = {genericPacket(1, 5, A.u, 1), genericPacket(3, 7, A.u, 3), genericPacket(1, 100, A.u, 2)};
    for (int r = 0; r < 2; ++r)
    {
        auto frames = e.encode(batch.begin(), batch.end(), DataContext{0, 64});
        API_POINT();
        for (auto& f : frames)
            h = mc::fnv(f.data(), f.size(), h);
    }
    h = mc::mix(h, e.getSequenceCounter());
    A.digest = h;
}

void bodyDecCopy(int, void* a)
{
    Arg& A = *static_cast<Arg*>(a);
    uint64_t h = 9;
    for (size_t i = A.split; i < A.frames.size(); ++i)
    {
        auto pk = A.dec->decode(A.frames[i].data(), A.frames[i].size());
        API_POINT();
        h = mc::mix(h, pk.size());
        for (auto& p : pk)
            h = mc::mix(h, digestPacket(*p));
    }
    A.digest = h;
}

void bodyStatusCopy(int, void* a)
{
    Arg& A = *static_cast<Arg*>(a);
    uint64_t h = 10;
    Status& st = *A.st;
    for (int r = 0; r < 3; ++r)
    {
        InterfacePayload ip;
        ip.setInterfaceId(700 + (uint32_t) (r % 2));
        ip.setMsgTotalRx(A.u + (uint32_t) r);
        ip.setData(nullptr, 0, nullptr, 0);
        Packet q;
        q.setPayload(ip);
        q.setDeviceId(77);
        st.update(q);
        API_POINT();
    }
    CaptureModulePayload cm;
    cm.setUptime(A.u);
    cm.setData("copy" + std::to_string(A.u), "sn", "hw", "sw", {});
    Packet p;
    p.setPayload(cm);
    p.setDeviceId(77);
    st.update(p);
    API_POINT();
    for (size_t i = 0; i < st.getDeviceStatusCount(); ++i)
    {
        h = mc::mix(h, digestPacket(st.getDeviceStatus(i).getPacket()));
        for (size_t j = 0; j < st.getDeviceStatus(i).getInterfaceStatusCount(); ++j)
            h = mc::mix(h, digestPacket(st.getDeviceStatus(i).getInterfaceStatus(j).getPacket()));
    }
    A.digest = h;
}

// ---- shared-input family -----------------------------------------------------------------------------------------------
std::vector<Packet> g_sharedPackets;
std::vector<Bytes> g_sharedFrames;

void buildSharedInputs()
{
    g_sharedPackets.clear();
    g_sharedFrames.clear();
    {
        CaptureModulePayload cm;
        cm.setUptime(12345);
        cm.setData("shared-dev", "sn", "hw", "sw", {1, 2});
        Packet p;
        p.setPayload(cm);
        p.setDeviceId(0x31); p.setVendorId(0x0102); p.setTimestamp(0x1111);
        g_sharedPackets.push_back(p);
        InterfacePayload ip;
        ip.setInterfaceId(0x77);
        uint8_t sids[2] = {1, 2};
        ip.setData(sids, 2, nullptr, 0);
        Packet q;
        q.setPayload(ip);
        q.setDeviceId(0x31); q.setTimestamp(0x2222);
        g_sharedPackets.push_back(q);
        CanPayload c;
        Bytes d = patt(8, 3);
        c.setId(0x123);
        c.setData(d.data(), 8);
        Packet r;
        r.setPayload(c);
        r.setInterfaceId(0x0A0B0C0D); r.setTimestamp(0x3333); r.setCommonFlags(0x21);
        g_sharedPackets.push_back(r);
        g_sharedPackets.push_back(genericPacket(1, 100, 9, 4));
    }
    Arg tmp;
    tmp.u = 61;
    prepDec(tmp);
    g_sharedFrames = tmp.frames;
    // TECMP frames too (a decoder routes them by their first byte), with the status bits 63 / 62 of the timestamp set as an
    // unsynchronised capture module sends them: the input buffer is the caller's and is read-only to every decoder
    Arg tt;
    tt.u = 62;
    prepTecmp(tt);
    for (size_t i : {(size_t) 0, (size_t) 5})   // a CAN data frame and the capture-module status frame (the all-interleavings level stays small)
    {
        Bytes f = tt.frames[i];
        if (f.size() > 17)
            f[16] |= 0xC0;
        g_sharedFrames.push_back(f);
    }
}

void bodyEncShared(int, void* a)
{
    Arg& A = *static_cast<Arg*>(a);
    uint64_t h = 11;
    Encoder e;
    e.setDeviceId((uint16_t) A.u);
    const std::vector<Packet>& in = *A.sharedPackets;
    for (const Packet& p : in)
    {
        auto fr = e.encode(p, DataContext{0, 64});
        API_POINT();
        for (auto& f : fr)
            h = mc::fnv(f.data(), f.size(), h);
    }
    auto all = e.encode(in.begin(), in.end(), DataContext{64, 1500});
    for (auto& f : all)
        h = mc::fnv(f.data(), f.size(), h);
    A.digest = h;
}

void bodyStatusShared(int, void* a)
{
    Arg& A = *static_cast<Arg*>(a);
    uint64_t h = 12;
    Status st;
    const std::vector<Packet>& in = *A.sharedPackets;
    for (const Packet& p : in)
    {
        st.update(p);
        API_POINT();
        Packet copy(p);
        h = mc::mix(h, digestPacket(copy));
        h = mc::mix(h, copy == p);
    }
    for (size_t i = 0; i < st.getDeviceStatusCount(); ++i)
    {
        h = mc::mix(h, digestPacket(st.getDeviceStatus(i).getPacket()));
        for (size_t j = 0; j < st.getDeviceStatus(i).getInterfaceStatusCount(); ++j)
            h = mc::mix(h, digestPacket(st.getDeviceStatus(i).getInterfaceStatus(j).getPacket()));
    }
    A.digest = h;
}

void bodyDecShared(int, void* a)
{
    Arg& A = *static_cast<Arg*>(a);
    uint64_t h = 13;
    Decoder d;
    for (const Bytes& f : *A.sharedFrames)
    {
        auto pk = d.decode(f.data(), f.size());
        API_POINT();
        h = mc::mix(h, pk.size());
        for (auto& p : pk)
            h = mc::mix(h, digestPacket(*p));
    }
    A.digest = h;
}

// ---- big state ---------------------------------------------------------------------------------------------------------------
// A decoder that holds MANY large reassemblies at once (300 endpoints x 65000 bytes, about 20 MB) while another decoder does the
// same: whatever one instance may hold, it may hold it whatever the other instances of the process hold (explored at the level of
// the explicit points only: the bodies are long).
void bodyDecBig(int, void* a)
{
    Arg& A = *static_cast<Arg*>(a);
    uint64_t h = 14;
    Decoder d;
    const int N = 300;
    Bytes big = patt(65000, A.u);
    for (int phase = 0; phase < 2; ++phase)
    {
        for (int i = 0; i < N; ++i)
        {
            ref::FrameHdr fh;
            fh.device = (uint16_t) (0x0300 + i); fh.stream = (uint8_t) (A.u & 0x7F); fh.msgType = ref::MT_DATA; fh.seq = (uint16_t) (65535 + phase);
            Bytes body = phase == 0 ? big : patt(16, A.u + (uint32_t) i);
            Bytes f = ref::buildFrame(fh, {ref::mkMsg(0xFE, body, (uint8_t) ((phase == 0 ? 1 : 3) << 2), A.u + (uint32_t) i, A.u)});
            auto pk = d.decode(f.data(), f.size());
            h = mc::mix(h, pk.size());
            for (auto& p : pk)
                h = mc::mix(h, mc::mix(p->getPayloadLength(), p->getDeviceId()));
        }
        API_POINT();
    }
    A.digest = h;
}

using BodyFn = void (*)(int, void*);
static void soloDigestsInChild(std::vector<Arg>& solo);
constexpr int NKIND = 14;
const char* kBodyName[NKIND] = {"enc", "dec", "tecmp", "status", "build", "deccont", "consume", "enccopy", "deccopy", "statuscopy", "encshared", "statusshared", "decshared", "decbig"};
BodyFn kBody[NKIND] = {bodyEnc, bodyDec, bodyTecmp, bodyStatus, bodyBuild, bodyDecCont, bodyConsume, bodyEncCopy, bodyDecCopy, bodyStatusCopy, bodyEncShared, bodyStatusShared, bodyDecShared, bodyDecBig};

void prep(Arg& A)
{
    A.frames.clear();
    if (A.kind == 1)
        prepDec(A);
    if (A.kind == 2)
        prepTecmp(A);
    if (A.kind == 5 || A.kind == 6 || A.kind == 8)
        prepHand(A);
}

// State that a body uses up (handed-over packets, the decoder that produced them) is rebuilt before EVERY execution, on the
// calling thread: the hand-over happens before the threads start. A consumer takes the packets of the first producer of the
// set; without one it uses a decoder of its own (which then stays idle).
void reprep(std::vector<Arg>& args)
{
    Arg* producer = nullptr;
    for (auto& a : args)
        if (a.kind == 5 && !producer)
            producer = &a;
    bool taken = false;
    for (auto& a : args)
        if (a.kind == 6)
        {
            if (producer && !taken)
            {
                handOver(*producer, a);
                taken = true;
            }
            else
                handOver(a, a);
        }
    for (auto& a : args)
        if (a.kind == 5 && !(a.dec && &a == producer && taken))
            handOver(a, a);
    // shared-input family: fresh, never-serialised input objects, the same ones for every thread
    {
        bool needShared = false;
        for (auto& a : args)
            needShared = needShared || (a.kind >= 10 && a.kind <= 12);
        if (needShared)
        {
            buildSharedInputs();
            for (auto& a : args)
                if (a.kind >= 10 && a.kind <= 12)
                {
                    a.sharedPackets = &g_sharedPackets;
                    a.sharedFrames = &g_sharedFrames;
                }
        }
    }
    // copy family: one prototype per kind (configured and used once), every thread of that kind gets a copy of it
    bool needEnc = false, needDec = false, needSt = false;
    for (auto& a : args)
    {
        needEnc = needEnc || a.kind == 7;
        needDec = needDec || a.kind == 8;
        needSt = needSt || a.kind == 9;
    }
    if (needEnc)
    {
        Encoder proto;
        proto.setDeviceId(0x0707);
        Packet warm = genericPacket(1, 9, 5, 1);
        proto.encode(warm, DataContext{0, 64});
        for (auto& a : args)
            if (a.kind == 7)
                a.enc = std::make_unique<Encoder>(proto);
    }
    if (needDec)
    {
        Decoder proto;
        const Arg* first = nullptr;
        for (auto& a : args)
            if (a.kind == 8 && !first)
                first = &a;
        // the prototype has decoded the first thread's frames up to (and including) an open first segment
        for (size_t i = 0; i < first->split; ++i)
            proto.decode(first->frames[i].data(), first->frames[i].size());
        for (auto& a : args)
            if (a.kind == 8)
            {
                a.dec = std::make_unique<Decoder>(proto);
                a.frames = first->frames;   // every copy continues the SAME stream (same endpoint, same open message)
                a.split = first->split;
            }
    }
    if (needSt)
    {
        Status proto;
        CaptureModulePayload cm;
        cm.setData("proto", "sn", "hw", "sw", {1});
        Packet p;
        p.setPayload(cm);
        p.setDeviceId(77);
        proto.update(p);
        InterfacePayload ip;
        ip.setInterfaceId(700);
        ip.setData(nullptr, 0, nullptr, 0);
        Packet q;
        q.setPayload(ip);
        q.setDeviceId(77);
        proto.update(q);
        for (auto& a : args)
            if (a.kind == 9)
                a.st = std::make_unique<Status>(proto);
    }
}

int kindOf(const std::string& n)
{
    for (int i = 0; i < NKIND; ++i)
        if (n == kBodyName[i])
            return i;
    return -1;
}

// The reference digests are computed in a forked child: the exploring / free-running process must not be warmed up by
// a sequential run (a lazily filled static table or cache would otherwise already be complete when the threads start).
static void soloDigestsInChild(std::vector<Arg>& solo)
{
    int fd[2];
    if (pipe(fd) != 0)
        exit(2);
    fflush(stdout);
    pid_t pid = fork();
    if (pid == 0)
    {
        close(fd[0]);
        reprep(solo);
        for (auto& a : solo)
        {
            kBody[a.kind](0, &a);
            if (write(fd[1], &a.digest, sizeof a.digest) != (ssize_t) sizeof a.digest)
                _exit(3);
        }
        _exit(0);
    }
    close(fd[1]);
    for (auto& a : solo)
        if (read(fd[0], &a.digest, sizeof a.digest) != (ssize_t) sizeof a.digest)
        {
            fprintf(stderr, "solo run of body %s failed\n", kBodyName[a.kind]);
            exit(2);
        }
    close(fd[0]);
    int st;
    waitpid(pid, &st, 0);
}

}  // namespace

#ifdef SCHED_FREE_RUNNING
// ---- free-running pass (ThreadSanitizer build) ---------------------------------------------------------
int main(int argc, char** argv)
{
    int iters = argc > 1 ? atoi(argv[1]) : 200;
    int bad = 0;
    uint64_t runs = 0;
    // all five bodies at once, then every body three times with itself
    std::vector<std::vector<int>> sets = {{0, 1, 2, 3, 4}};
    for (int k = 0; k < 5; ++k)
        sets.push_back({k, k, k});
    for (int a = 0; a < 5; ++a)
        for (int b = a + 1; b < 5; ++b)
            sets.push_back({a, b});
    for (auto& set : sets)
    {
        std::vector<Arg> solo(set.size()), args(set.size());
        for (size_t i = 0; i < set.size(); ++i)
        {
            solo[i].kind = args[i].kind = set[i];
            solo[i].u = args[i].u = (uint32_t) (17 + 40 * i);
            prep(solo[i]);
            prep(args[i]);
        }
        soloDigestsInChild(solo);
        std::vector<std::thread> th;
        for (size_t i = 0; i < set.size(); ++i)
            th.emplace_back([&, i] {
                for (int it = 0; it < iters; ++it)
                {
                    kBody[set[i]]((int) i, &args[i]);
                    if (args[i].digest != solo[i].digest)
                        __atomic_fetch_add(&bad, 1, __ATOMIC_RELAXED);
                }
            });
        for (auto& t : th)
            t.join();
        runs += set.size() * (uint64_t) iters;
    }
    // sets whose bodies use up prepared state (rebuilt before every iteration, threads started per iteration): the hand-over pair
    // and the copy family (each thread works on its own copy of one prototype)
    for (auto& set : std::vector<std::vector<int>>{{5, 6}, {7, 7, 7}, {8, 8}, {9, 9, 9}, {10, 10, 11}, {10, 11, 12}, {12, 12}})
    {
        const size_t m = set.size();
        std::vector<Arg> solo(m), args(m);
        for (size_t i = 0; i < m; ++i)
        {
            solo[i].kind = args[i].kind = set[i];
            solo[i].u = args[i].u = (uint32_t) (17 + 40 * i);
            prep(solo[i]);
            prep(args[i]);
        }
        soloDigestsInChild(solo);
        for (int it = 0; it < iters; ++it)
        {
            reprep(args);
            std::vector<std::thread> th;
            for (size_t i = 0; i < m; ++i)
                th.emplace_back([&, i] { kBody[set[i]]((int) i, &args[i]); });
            for (auto& t : th)
                t.join();
            for (size_t i = 0; i < m; ++i)
                if (args[i].digest != solo[i].digest)
                    ++bad;
            runs += m;
        }
        sets.push_back(set);
    }
    printf("FREERUN sets=%zu body_runs=%llu digest_mismatches=%d\n", sets.size(), (unsigned long long) runs, bad);
    return bad ? 1 : 0;
}
#else
// ---- schedule explorer ------------------------------------------------------------------------------
struct Sched
{
    int first;
    std::vector<srt::Deviation> dev;
    uint32_t cost;   // preemptions used
};

static std::string showSched(const std::vector<int>& kinds, srt::Level level, const Sched& s)
{
    std::string r = "bodies=";
    for (size_t i = 0; i < kinds.size(); ++i)
        r += (i ? "," : "") + std::string(kBodyName[kinds[i]]);
    r += fmt(";level=%d;first=%d;dev=", (int) level, s.first);
    for (size_t i = 0; i < s.dev.size(); ++i)
        r += fmt("%s%u:%u", i ? "," : "", s.dev[i].point, s.dev[i].thread);
    return r;
}

int main(int argc, char** argv)
{
    // usage: sched <bodies comma list> <level 0|1|2> <k> [--replay "first=..;dev=.."] [--progress-fd N]
    if (argc < 4)
    {
        fprintf(stderr, "usage: sched <bodies> <level> <k> [--replay <case>] [--max-schedules N] [--deadline-s S]\n");
        return 2;
    }
    std::vector<int> kinds;
    for (auto& n : mc::split(argv[1], ','))
        kinds.push_back(kindOf(n));
    srt::Level level = (srt::Level) atoi(argv[2]);
    uint32_t K = (uint32_t) atoi(argv[3]);
    std::string replay;
    double deadline = 1e18;
    int progressFd = -1;
    uint32_t shardI = 0, shardP = 1;
    for (int i = 4; i < argc; ++i)
    {
        std::string a = argv[i];
        if (a == "--replay" && i + 1 < argc) replay = argv[++i];
        if (a == "--deadline-s" && i + 1 < argc) deadline = mc::now_s() + atof(argv[++i]);
        if (a == "--progress-fd" && i + 1 < argc) progressFd = atoi(argv[++i]);
        if (a == "--shard" && i + 1 < argc)
        {
            shardI = (uint32_t) atoi(argv[++i]);
            const char* sl = strchr(argv[i], '/');
            shardP = sl ? (uint32_t) atoi(sl + 1) : 1;
        }
    }
    const int n = (int) kinds.size();
    std::vector<Arg> solo(n), args(n);
    for (int i = 0; i < n; ++i)
    {
        solo[i].kind = args[i].kind = kinds[i];
        solo[i].u = args[i].u = (uint32_t) (17 + 40 * i);
        prep(solo[i]);
        prep(args[i]);
    }
    soloDigestsInChild(solo);   // alone, in another process, before any exploration
    bool needReprep = false, monitorOff = false;
    for (int k : kinds)
    {
        needReprep = needReprep || (k >= 5 && k != 13);
        monitorOff = monitorOff || k == 13;
    }
    srt::init(n);
    std::vector<srt::Body> bodies;
    std::vector<void*> argp;
    for (int i = 0; i < n; ++i)
    {
        bodies.push_back(kBody[kinds[i]]);
        argp.push_back(&args[i]);
    }
    const uint32_t MAXP = 1 << 16;
    std::vector<srt::PointInfo> points(MAXP);
    uint64_t schedules = 0, transitions = 0, violations = 0, maxPoints = 0, libLoads = 0, libStores = 0, globalAcc = 0, replayChecks = 0;
    std::set<uint64_t> outcomes;
    std::map<std::string, std::string> viol;   // key -> description
    bool capped = false, nondet = false;

    auto execute = [&](const Sched& s, srt::ExecResult& r) {
        for (int i = 0; i < n; ++i)
            args[i].digest = 0;
        if (needReprep)
            reprep(args);
        if (progressFd >= 0)
        {
            std::string cs = showSched(kinds, level, s);
            cs.resize(1000, ' ');
            if (pwrite(progressFd, cs.data(), cs.size(), 0) < 0)
                progressFd = -1;
        }
        r = srt::run(n, bodies.data(), argp.data(), level, s.first, s.dev.data(), (int) s.dev.size(), points.data(), MAXP);
        ++schedules;
        transitions += r.npoints;
        maxPoints = std::max<uint64_t>(maxPoints, r.npoints);
        libLoads += r.libLoads;
        libStores += r.libStores;
        globalAcc += r.globalAccesses;
        uint64_t oh = r.npoints;
        for (int i = 0; i < n; ++i)
            oh = mc::mix(oh, args[i].digest);
        outcomes.insert(mc::mix(oh, monitorOff ? 0 : r.nconflicts));
        std::string cs = showSched(kinds, level, s);
        if (r.diverged)
        {
            nondet = true;
            viol["harness:schedule-diverged"] = cs;
        }
        for (int i = 0; i < n; ++i)
            if (args[i].digest != solo[i].digest)
            {
                ++violations;
                std::string key = fmt("concurrency:result-differs-from-solo-run:%s", kBodyName[kinds[i]]);
                if (!viol.count(key))
                    viol[key] = cs + fmt(" :: thread %d (%s) produced digest %llx, alone it produces %llx", i, kBodyName[kinds[i]], (unsigned long long) args[i].digest,
                                         (unsigned long long) solo[i].digest);
            }
        // The confinement monitor knows nothing of the allocator: a block freed by one thread and handed out to the other is "touched
        // by both". The big-state bodies turn over ~40 MB of large blocks per execution, far more than ASan's quarantine keeps apart,
        // so for them the monitor is off and the digests (results equal to the solo run) decide alone.
        for (uint32_t c = 0; !monitorOff && c < std::min<uint32_t>(r.nconflicts, 8); ++c)
        {
            ++violations;
            Dl_info info;
            std::string fn = "?";
            if (dladdr(reinterpret_cast<void*>(r.conflicts[c].pc), &info) && info.dli_sname)
            {
                fn = info.dli_sname;
            }
            std::string key = fmt("concurrency:unsynchronised-shared-access:%s@%s", r.conflicts[c].global ? "global" : "heap", fn.substr(0, 90).c_str());
            if (!viol.count(key))
                viol[key] = cs + fmt(" :: %s address %p written by thread mask 0x%x, read by thread mask 0x%x from library code", r.conflicts[c].global ? "writable global" : "heap",
                                     (void*) r.conflicts[c].addr, r.conflicts[c].writers, r.conflicts[c].readers);
        }
    };

    if (!replay.empty())
    {
        auto kv = mc::kv_parse(replay);
        Sched s;
        s.first = atoi(kv["first"].c_str());
        s.cost = 0;
        for (auto& d : mc::split(kv["dev"], ','))
        {
            size_t c = d.find(':');
            if (c != std::string::npos)
                s.dev.push_back({(uint32_t) atoi(d.c_str()), (uint8_t) atoi(d.c_str() + c + 1)});
        }
        srt::ExecResult r;
        execute(s, r);
        for (auto& v : viol)
            printf("VIOL key=%s :: %s\n", v.first.c_str(), v.second.c_str());
        printf("REPLAY points=%u preemptions=%u violations=%zu\n", r.npoints, r.preemptions, viol.size());
        srt::shutdown();
        return viol.empty() ? 0 : 1;
    }

    // deviation-bounded DFS (iterative): bound 0, then 1, ... K is covered by cost pruning; children are
    // generated in order of the deviation point so the first counterexample has the fewest deviations first
    // K > 2 ("unbounded" at API level): one pass in which every schedule within the bound is new
    for (uint32_t bound = (K > 2 ? K : 0); bound <= K && !capped; ++bound)
    {
        const bool onePass = K > 2;
        std::vector<Sched> stack;
        for (int f = n - 1; f >= 0; --f)
            stack.push_back(Sched{f, {}, 0});
        uint32_t rootChild = 0;
        while (!stack.empty())
        {
            if (mc::now_s() > deadline)
            {
                capped = true;
                break;
            }
            Sched s = std::move(stack.back());
            stack.pop_back();
            srt::ExecResult r;
            // only schedules with exactly `bound` preemptions are NEW in this round; cheaper ones are
            // re-executed as inner nodes only when they can still be extended
            bool isNew = onePass || s.cost == bound;
            if (!isNew && s.cost + 1 > bound)
                continue;
            uint64_t before = schedules;
            execute(s, r);
            if (!isNew || (s.dev.empty() && shardI != 0))
                schedules = before;   // counted in an earlier round / by shard 0
            // determinism: replay every 512th schedule once more and compare the number of points
            if ((schedules & 511) == 1)
            {
                srt::ExecResult r2;
                uint64_t sv = schedules, tv = transitions;
                std::vector<uint64_t> dg;
                for (int i = 0; i < n; ++i)
                    dg.push_back(args[i].digest);
                execute(s, r2);
                schedules = sv;
                transitions = tv;
                ++replayChecks;
                bool same = r2.npoints == r.npoints;
                for (int i = 0; i < n; ++i)
                    same = same && dg[i] == args[i].digest;
                if (!same)
                {
                    nondet = true;
                    viol["harness:replay-not-deterministic"] = showSched(kinds, level, s);
                }
                // restore point info of the first execution
                execute(s, r);
                schedules = sv;
                transitions = tv;
            }
            uint32_t from = s.dev.empty() ? 0 : s.dev.back().point + 1;
            uint32_t np = std::min<uint32_t>(r.npoints, MAXP);
            if (r.npoints > MAXP)
                capped = true;
            for (uint32_t i = np; i-- > from;)
            {
                const srt::PointInfo& p = points[i];
                uint32_t cost = s.cost + (p.atEnd ? 0 : 1);
                if (cost > bound)
                    continue;
                int dflt = p.atEnd ? -1 : p.running;
                if (p.atEnd)
                    for (int t = 0; t < n; ++t)
                        if (p.enabled & (1u << t))
                        {
                            dflt = t;
                            break;
                        }
                for (int t = n - 1; t >= 0; --t)
                {
                    if (!(p.enabled & (1u << t)) || t == dflt)
                        continue;
                    if (s.dev.empty() && (rootChild++ % shardP) != shardI)
                        continue;   // another shard explores this subtree
                    Sched c = s;
                    c.dev.push_back({i, (uint8_t) t});
                    c.cost = cost;
                    stack.push_back(std::move(c));
                }
            }
        }
    }
    srt::shutdown();
    for (auto& v : viol)
        printf("VIOL key=%s :: %s\n", v.first.c_str(), v.second.c_str());
    printf("RESULT bodies=%s level=%d k=%u schedules=%llu transitions=%llu max_points=%llu distinct_outcomes=%zu violations=%llu lib_loads=%llu lib_stores=%llu "
           "global_accesses=%llu guards=%u func_guards=%u replay_checks=%llu capped=%d nondet=%d\n",
           argv[1], (int) level, K, (unsigned long long) schedules, (unsigned long long) transitions, (unsigned long long) maxPoints, outcomes.size(),
           (unsigned long long) violations, (unsigned long long) libLoads, (unsigned long long) libStores, (unsigned long long) globalAcc, srt::guardCount(), srt::funcGuardCount(),
           (unsigned long long) replayChecks, capped ? 1 : 0, nondet ? 1 : 0);
    return nondet ? 3 : (viol.empty() ? 0 : 1);
}
#endif
