// Engine `dec`: properties C05 (all interleavings of endpoint streams), C06 (all fault sequences up to a
// bound), C17 (pending-state invariant: tree + BFS over the real decoder, needs the verifPending hook)
// and C18 (per-endpoint solo-decoder differential on the C05 and C17 explorations).
#include <asam_cmp/decoder.h>
#include <asam_cmp/encoder.h>

#include <cstdarg>

#include "engines/libobs.h"
#define MC_ALLOCFAULT_IMPL
#include "mc/allocfault.h"
#include "mc/harness.h"
#include "ref/payloads.h"
#include "ref/reassembly.h"
#include "ref/wire.h"

using namespace ASAM::CMP;
using mc::W;
using ref::Bytes;

static std::string fmt(const char* f, ...)
{
    char b[2048];
    va_list ap;
    va_start(ap, f);
    vsnprintf(b, sizeof b, f, ap);
    va_end(ap);
    return b;
}

struct Ep
{
    uint16_t dev;
    uint8_t str;
    char name;
};
// A/B differ only in the stream id, A/D only in the HIGH byte of the device id (a key that drops or folds a part of the endpoint
// makes two of them collide); C is (0,0): the ids a default-constructed Packet or Encoder carries, i.e. the value any "not set
// yet" shortcut compares with
constexpr int NEP = 4;
static const Ep kEp[NEP] = {{1, 1, 'A'}, {1, 0x81, 'B'}, {0, 0, 'C'}, {0x0101, 1, 'D'}};   // B's stream id has the sign bit of a byte set

static Bytes pattern(size_t len, unsigned tag)
{
    Bytes b(len);
    for (size_t i = 0; i < len; ++i)
        b[i] = (uint8_t) (i * 29u + tag * 53u + 11u);
    return b;
}

// ---------------------------------------------------------------------------------------------
struct Sys
{
    Decoder d;
    ref::ReassemblyModel m;
    Decoder solo[NEP];
};

static std::vector<obs::PObs> decodeCopy(W& w, Decoder& d, const Bytes& f, bool isNull = false)
{
    std::vector<obs::PObs> out;
    if (isNull)
    {
        auto pk = d.decode(nullptr, 0);
        for (auto& p : pk)
            if (p)
                out.push_back(obs::observe(*p));
        return out;
    }
    // flush against the end of its own heap block, at an address whose alignment varies with the frame length (length % 8)
    const size_t off = f.size() % 8;
    uint8_t* block = static_cast<uint8_t*>(malloc(f.size() + off ? f.size() + off : 1));
    uint8_t* copy = block + off;
    memcpy(copy, f.data(), f.size());
    auto pk = d.decode(copy, f.size());
    free(block);
    for (auto& p : pk)
    {
        if (!p)
        {
            w.fail("decoder-returned-null", "null packet pointer");
            continue;
        }
        out.push_back(obs::observe(*p));
    }
    return out;
}

static std::string showD(const ref::Delivered& d)
{
    return fmt("{ver=%u dev=0x%x str=%u ts=0x%llx id=0x%x fl=0x%02x mt=0x%x pt=0x%x len=%zu bytes=%s%s}", d.version, d.device, d.stream,
               (unsigned long long) d.h.ts, d.h.idword, d.h.flags, d.msgType, d.h.ptype, d.payload.size(),
               mc::hex(d.payload.data(), std::min<size_t>(d.payload.size(), 24)).c_str(), d.payload.size() > 24 ? ".." : "");
}

// "" if equal, else the name of the first differing field
static std::string diffPacket(const obs::PObs& o, const ref::Delivered& d)
{
    if (o.dev != d.device) return "device-id";
    if (o.stream != d.stream) return "stream-id";
    if (o.version != d.version) return "version";
    if (o.msgType != d.msgType) return "message-type";
    if (o.ptype != d.h.ptype) return "payload-type";
    if (o.bytes.size() != d.payload.size()) return "payload-length";
    if (o.bytes != d.payload) return "payload-bytes";
    if (o.ts != d.h.ts) return "timestamp";
    if (d.msgType == ref::MT_DATA && o.ifid != d.h.idword) return "interface-id";
    if ((d.msgType == ref::MT_STATUS || d.msgType == ref::MT_VENDOR) && o.vid != d.h.vendorId()) return "vendor-id";
    if ((o.flags & ~ref::FLAG_SEG_MASK) != (d.h.flags & ~ref::FLAG_SEG_MASK)) return "flags";
    return "";
}

static void compareDeliveries(W& w, const std::vector<obs::PObs>& got, const std::vector<ref::Delivered>& exp, const char* oracle, const std::string& where)
{
    if (got.size() != exp.size())
    {
        std::string key = got.size() < exp.size() ? "message-not-delivered" : "unexpected-delivery";
        w.fail(fmt("%s:%s", oracle, key.c_str()),
               where + fmt(": decoder returned %zu packet(s), expected %zu;", got.size(), exp.size()) + (got.empty() ? "" : " got[0]=" + obs::show(got[0])) +
                   (exp.empty() ? "" : " expected[0]=" + showD(exp[0])));
        return;
    }
    for (size_t i = 0; i < got.size(); ++i)
    {
        std::string d = diffPacket(got[i], exp[i]);
        if (!d.empty())
            w.fail(fmt("%s:delivered-packet-differs:%s", oracle, d.c_str()), where + ": got " + obs::show(got[i]) + " expected " + showD(exp[i]));
    }
}

static std::string diffObs(const obs::PObs& a, const obs::PObs& b)
{
    if (a.dev != b.dev) return "device-id";
    if (a.stream != b.stream) return "stream-id";
    if (a.version != b.version) return "version";
    if (a.msgType != b.msgType) return "message-type";
    if (a.ptype != b.ptype) return "payload-type";
    if (a.bytes != b.bytes) return "payload";
    if (a.ts != b.ts) return "timestamp";
    if (a.ifid != b.ifid) return "interface-id";
    if (a.vid != b.vid) return "vendor-id";
    if (a.flags != b.flags) return "flags";
    if (a.valid != b.valid) return "validity";
    return "";
}

// One step of the system. ep < 0: endpoint-less buffer (goes to the shared decoder only).
// oracle: 'M' lock-step with the model (C05/C06), 'S' solo differential (C18), 'P' pending invariant (C17)
static std::vector<obs::PObs> step(W& w, Sys& s, const Bytes& f, bool isNull, int ep, char oracle, const std::string& where)
{
    std::vector<obs::PObs> got = decodeCopy(w, s.d, f, isNull);
    bool tecmp = false;
    std::vector<ref::Delivered> exp = s.m.onFrame(isNull ? nullptr : f.data(), f.size(), &tecmp);
    if (oracle == 'M' && !tecmp)
        compareDeliveries(w, got, exp, "model", where);
    if (oracle == 'S')
    {
        if (ep >= 0)
        {
            std::vector<obs::PObs> sg = decodeCopy(w, s.solo[ep], f, isNull);
            if (sg.size() != got.size())
                w.fail("isolation:delivery-count-differs-from-solo-decoder",
                       where + fmt(": shared decoder returned %zu packet(s), a decoder fed only endpoint %c's frames returned %zu", got.size(), kEp[ep].name, sg.size()));
            else
                for (size_t i = 0; i < got.size(); ++i)
                {
                    std::string d = diffObs(got[i], sg[i]);
                    if (!d.empty())
                        w.fail("isolation:delivered-packet-differs-from-solo-decoder:" + d, where + ": shared " + obs::show(got[i]) + " solo " + obs::show(sg[i]));
                }
        }
        else if (!tecmp && !got.empty())
            w.fail("isolation:endpoint-less-buffer-delivered-cmp-packets", where + fmt(": %zu packets from a buffer too short to be a frame", got.size()));
    }
    if (oracle == 'P')
    {
        auto pend = s.d.verifPending();
        // set of endpoints
        std::set<ref::EpKey> impl, model;
        for (auto& p : pend)
            impl.insert({p.deviceId, p.streamId});
        for (auto& kv : s.m.open)
            model.insert(kv.first);
        if (impl != model)
        {
            std::string a, b;
            for (auto& e : impl) a += fmt("(%u,%u)", e.first, e.second);
            for (auto& e : model) b += fmt("(%u,%u)", e.first, e.second);
            bool leak = false;
            for (auto& e : impl)
                if (!model.count(e))
                    leak = true;
            w.fail(leak ? "pending-state:kept-for-endpoint-without-open-message" : "pending-state:missing-for-open-message",
                   where + ": decoder holds pending data for {" + a + "}, messages in progress are {" + b + "}");
        }
        for (auto& p : pend)
        {
            ref::EpKey k{p.deviceId, p.streamId};
            if (!s.m.open.count(k))
                continue;
            size_t bound = s.m.pendingBytesBound(k);
            if (p.bytes.size() > bound)
                w.fail("pending-state:more-bytes-than-received-segment-bytes",
                       where + fmt(": endpoint (%u,%u) buffers %zu bytes, header + declared segment bytes received = %zu", p.deviceId, p.streamId, p.bytes.size(), bound));
        }
    }
    return got;
}

static uint64_t stateHash(const Sys& s, uint64_t seed)
{
    uint64_t h = seed;
    for (auto& kv : s.m.open)
    {
        const ref::OpenMsg& o = kv.second;
        uint64_t f[] = {kv.first.first, kv.first.second, o.version, o.msgType, o.lastSeq, o.first.ts, o.first.idword, o.first.flags, o.first.ptype, o.first.plen, o.segments};
        h = mc::fnv(f, sizeof f, h);
        h = mc::fnv(o.payload.data(), o.payload.size(), h);
    }
    h = mc::mix(h, 0xABCDEF);
    for (auto& p : s.d.verifPending())
    {
        uint64_t f[] = {p.deviceId, p.streamId, p.lastSegmentType, p.version, p.messageType, p.lastSequenceCounter, p.bytes.size()};
        h = mc::fnv(f, sizeof f, h);
        h = mc::fnv(p.bytes.data(), p.bytes.size(), h);
    }
    return h;
}

// ---------------------------------------------------------------------------------------------
// C05 streams
static const char* kTmpl[7] = {"FL", "FIL", "FIIL", "U", "UFL", "FLFL", "FILU"};
struct Var
{
    int sizes[3];
    uint16_t start;
    int trail;
    uint8_t ver;
    bool typed;
    uint8_t mt = 1;   // frame message type (typed variants are data messages)
};
// variants 8 and 9 reassemble to 65535 / 65519..65520 bytes (the largest messages the 16-bit length field admits)
// every frame message type meets a counter boundary: control (2, even) and an unknown type (7) the 65535 -> 0 wrap, status (3) and vendor
// (0xFF) the sign boundary, data all of them
static const Var kVar[10] = {
    {{5, 5, 5}, 1, 0, 1, false, 1},     {{1, 0, 5}, 65534, 3, 1, false, 2}, {{0, 5, 1}, 65535, 20, 2, false, 7}, {{6, 1, 0}, 0, 0, 1, true, 1},
    {{5, 5, 5}, 65535, 3, 1, true, 1},  {{0, 0, 0}, 32766, 0, 2, false, 3}, {{1, 1, 1}, 32767, 300, 1, false, 0xFF}, {{6, 0, 1}, 254, 0, 2, true, 1},
    {{40000, 25535, 0}, 65534, 0, 1, false, 1}, {{65519, 0, 1}, 1, 3, 1, true, 1},
};

struct BuiltStream
{
    std::vector<Bytes> frames;
    std::vector<std::vector<ref::Delivered>> expectAt;   // deliveries expected when frame i arrives
    int nMsgs = 0;
};

static BuiltStream buildStream(int ep, int tmpl, int var)
{
    BuiltStream bs;
    const Var& v = kVar[var];
    const char* t = kTmpl[tmpl];
    uint16_t seq = v.start;
    int msgIdx = 0;
    size_t i = 0, n = strlen(t);
    auto fh = [&](uint16_t s) {
        ref::FrameHdr h;
        h.version = v.ver; h.device = kEp[ep].dev; h.stream = kEp[ep].str; h.msgType = v.mt; h.seq = s;
        return h;
    };
    while (i < n)
    {
        if (t[i] == 'U')
        {
            int cnt = (msgIdx % 2 == 1) ? 2 : 1;
            std::vector<ref::Msg> msgs;
            std::vector<ref::Delivered> exp;
            for (int k = 0; k < cnt; ++k)
            {
                Bytes body = pattern(3 - k, (unsigned) (ep * 100 + msgIdx * 10 + k));
                ref::Msg m = ref::mkMsg(0xFE, body, 0x01, 0x7000 + ep * 0x100 + msgIdx * 0x10 + k, 0x11110000u + ep * 0x100 + msgIdx);
                msgs.push_back(m);
                ref::Delivered d;
                d.device = kEp[ep].dev; d.stream = kEp[ep].str; d.version = v.ver; d.msgType = v.mt; d.h = m.h; d.payload = body;
                exp.push_back(d);
            }
            bs.frames.push_back(ref::buildFrame(fh(seq++), msgs));
            bs.expectAt.push_back(exp);
            bs.nMsgs += cnt;
            ++msgIdx;
            ++i;
            continue;
        }
        // segmented message F I* L
        size_t j = i + 1;
        while (j < n && t[j] == 'I')
            ++j;
        size_t k = j - i + 1;   // number of segments (t[j] == 'L')
        std::vector<int> sz;
        size_t total = 0;
        for (size_t q = 0; q < k; ++q)
        {
            sz.push_back(v.sizes[(q + msgIdx) % 3]);
            total += sz.back();
        }
        bool typed = v.typed && total >= 6;
        Bytes content;
        if (typed)
        {
            ref::put16(content, 0x0080);   // flags: fcs support (no error bit)
            ref::put16(content, 0);
            ref::put16(content, total - 6);
            Bytes p = pattern(total - 6, (unsigned) (ep * 100 + msgIdx * 10));
            ref::putbytes(content, p);
        }
        else
            content = pattern(total, (unsigned) (ep * 100 + msgIdx * 10 + 5));
        uint8_t ptype = typed ? 0x08 : 0xFE;
        uint64_t ts = 0x9000 + ep * 0x100 + msgIdx * 0x10;
        uint32_t id = 0x22220000u + ep * 0x100 + msgIdx;
        size_t off = 0;
        for (size_t q = 0; q < k; ++q)
        {
            uint8_t seg = q == 0 ? ref::SEG_FIRST : (q + 1 == k ? ref::SEG_LAST : ref::SEG_MID);
            Bytes body(content.begin() + off, content.begin() + off + sz[q]);
            off += sz[q];
            // later segments differ from the first in EVERY header field a segment may legitimately differ in (timestamp,
            // interface id word, and the common flags other than segmentation / error-in-payload, in both directions: set on
            // the first only, set on a later one only): the delivered header must be the first segment's
            const uint8_t firstFlags = (var & 1) ? 0x32 : 0x02;
            const uint8_t segFlags = q == 0 ? firstFlags : (uint8_t) ((firstFlags ^ ((q & 1) ? 0x31 : 0x13)) & 0x33);
            ref::Msg m = ref::mkMsg(ptype, body, (uint8_t) (segFlags | (seg << 2)), ts + q, q == 0 ? id : id ^ (0x01010101u * (uint32_t) q));
            Bytes f = ref::buildFrame(fh(seq++), {m});
            // bytes after the declared segment length; a long trail is filled with 0x01, which at EVERY offset reads as a plausible
            // message header (flags 0x01, payload type 1, length 257 that fits): a decoder that parses on behind a segment finds one
            for (int z = 0; z < v.trail; ++z)
                f.push_back(v.trail >= 100 ? (uint8_t) 0x01 : (uint8_t) (0xE0 + z));
            bs.frames.push_back(f);
            std::vector<ref::Delivered> exp;
            if (q + 1 == k)
            {
                ref::Delivered d;
                d.device = kEp[ep].dev; d.stream = kEp[ep].str; d.version = v.ver; d.msgType = v.mt;
                d.h.ts = ts; d.h.idword = id; d.h.flags = (var & 1) ? 0x32 : 0x02; d.h.ptype = ptype; d.h.plen = (uint16_t) total;
                d.payload = content;
                d.reassembled = true;
                exp.push_back(d);
            }
            bs.expectAt.push_back(exp);
        }
        bs.nMsgs += 1;
        ++msgIdx;
        i = j + 1;
    }
    return bs;
}

struct MergeCase
{
    std::vector<int> eps, tmpl, var;
    std::string order;   // sequence of stream indices as letters '0'..'2'
};

static std::string showMerge(const MergeCase& c)
{
    std::string s = "k=merge;ep=";
    for (int e : c.eps) s += kEp[e].name;
    s += ";t=";
    for (size_t i = 0; i < c.tmpl.size(); ++i) s += (i ? "," : "") + std::string(kTmpl[c.tmpl[i]]);
    s += ";v=";
    for (size_t i = 0; i < c.var.size(); ++i) s += (i ? "," : "") + std::to_string(c.var[i]);
    s += ";o=" + c.order;
    return s;
}

struct MergeCtx
{
    std::vector<BuiltStream> st;
    MergeCase c;
    char oracle;      // 'M' or 'S'
};

static void mergeStep(W& w, Sys& s, MergeCtx& mc_, int si, size_t pos, std::vector<int>& delivered)
{
    const BuiltStream& b = mc_.st[si];
    std::string where = fmt("stream %d (endpoint %c) frame %zu", si, kEp[mc_.c.eps[si]].name, pos);
    auto got = step(w, s, b.frames[pos], false, mc_.c.eps[si], mc_.oracle, where);
    if (mc_.oracle == 'M')
        compareDeliveries(w, got, b.expectAt[pos], "stream-spec", where);
    delivered[si] += (int) got.size();
    w.outcome(mc::mix(mc::mix(stateHash(s, 7), got.size()), got.empty() ? 0 : obs::digest(got[0])));
}

static void dfsMerge(W& w, const Sys& s, MergeCtx& m, std::vector<size_t>& pos, std::vector<int>& delivered)
{
    bool any = false;
    for (size_t si = 0; si < m.st.size(); ++si)
    {
        if (pos[si] >= m.st[si].frames.size())
            continue;
        any = true;
        m.c.order.push_back((char) ('0' + si));
        auto desc = [&] { return showMerge(m.c); };
        if (w.begin_case(desc))
        {
            Sys n = s;   // copy of the real decoder(s)
            std::vector<int> dl = delivered;
            mergeStep(w, n, m, (int) si, pos[si], dl);
            w.add(mc::C_TRANS, 1);
            w.add(mc::C_STATES, 1);
            pos[si]++;
            dfsMerge(w, n, m, pos, dl);
            pos[si]--;
        }
        m.c.order.pop_back();
    }
    if (!any)
    {
        w.add(mc::C_TRACES, 1);
        if (m.oracle == 'M')
            for (size_t si = 0; si < m.st.size(); ++si)
                if (delivered[si] != m.st[si].nMsgs)
                    w.fail("stream-spec:delivery-count-at-end-of-interleaving",
                           fmt("stream %zu delivered %d message(s) over the whole interleaving, it sent %d", si, delivered[si], m.st[si].nMsgs));
    }
}

static MergeCase parseMerge(const std::string& cs)
{
    auto kv = mc::kv_parse(cs);
    MergeCase c;
    for (char ch : kv["ep"])
        c.eps.push_back(ch - 'A');
    for (auto& t : mc::split(kv["t"], ','))
        for (int i = 0; i < 7; ++i)
            if (t == kTmpl[i])
                c.tmpl.push_back(i);
    for (auto& v : mc::split(kv["v"], ','))
        c.var.push_back(atoi(v.c_str()));
    c.order = kv["o"];
    return c;
}

static void replayMerge(W& w, const std::string& cs, char oracle)
{
    MergeCtx m;
    m.c = parseMerge(cs);
    m.oracle = oracle;
    std::string order = m.c.order;
    m.c.order.clear();
    for (size_t i = 0; i < m.c.eps.size(); ++i)
        m.st.push_back(buildStream(m.c.eps[i], m.c.tmpl[i], m.c.var[i]));
    Sys s;
    std::vector<size_t> pos(m.st.size(), 0);
    std::vector<int> delivered(m.st.size(), 0);
    for (char ch : order)
    {
        int si = ch - '0';
        if (si < 0 || si >= (int) m.st.size() || pos[si] >= m.st[si].frames.size())
            break;
        mergeStep(w, s, m, si, pos[si], delivered);
        pos[si]++;
    }
    bool complete = true;
    for (size_t si = 0; si < m.st.size(); ++si)
        complete = complete && pos[si] == m.st[si].frames.size();
    if (complete && oracle == 'M')
        for (size_t si = 0; si < m.st.size(); ++si)
            if (delivered[si] != m.st[si].nMsgs)
                w.fail("stream-spec:delivery-count-at-end-of-interleaving",
                       fmt("stream %zu delivered %d message(s) over the whole interleaving, it sent %d", si, delivered[si], m.st[si].nMsgs));
}

struct MergeTask
{
    std::vector<int> eps, tmpl, var;
};

static std::vector<MergeTask> mergeTasks(bool thorough)
{
    std::vector<MergeTask> ts;
    const int pairs[4][2] = {{0, 1}, {0, 2}, {1, 2}, {0, 3}};
    for (auto& p : pairs)
        for (int t0 = 0; t0 < 7; ++t0)
            for (int t1 = 0; t1 < 7; ++t1)
                for (int v0 = 0; v0 < 8; ++v0)
                    for (int v1 = 0; v1 < 8; ++v1)
                        ts.push_back({{p[0], p[1]}, {t0, t1}, {v0, v1}});
    // largest admissible messages: templates FL / FIL with the two big variants against every partner template
    for (int big = 8; big < 10; ++big)
        for (int t0 = 0; t0 < 2; ++t0)   // FL and FIL only: a fourth segment would exceed the 65535-byte domain
            for (int t1 = 0; t1 < 7; ++t1)
            {
                ts.push_back({{0, 1}, {t0, t1}, {big, 1}});
                ts.push_back({{2, 0}, {t1, t0}, {2, big}});
            }
    const size_t maxFrames = thorough ? 12 : 9;
    for (int t0 = 0; t0 < 7; ++t0)
        for (int t1 = 0; t1 < 7; ++t1)
            for (int t2 = 0; t2 < 7; ++t2)
            {
                if (strlen(kTmpl[t0]) + strlen(kTmpl[t1]) + strlen(kTmpl[t2]) > maxFrames)
                    continue;
                for (int v = 0; v < 8; ++v)
                    ts.push_back({{0, 1, 2}, {t0, t1, t2}, {v, (v + 1) % 8, (v + 3) % 8}});
            }
    return ts;
}

static void runMergeTask(W& w, const MergeTask& t, char oracle)
{
    MergeCtx m;
    m.c.eps = t.eps;
    m.c.tmpl = t.tmpl;
    m.c.var = t.var;
    m.oracle = oracle;
    for (size_t i = 0; i < t.eps.size(); ++i)
        m.st.push_back(buildStream(t.eps[i], t.tmpl[i], t.var[i]));
    Sys s;
    std::vector<size_t> pos(m.st.size(), 0);
    std::vector<int> delivered(m.st.size(), 0);
    dfsMerge(w, s, m, pos, delivered);
}

// ---------------------------------------------------------------------------------------------
// C17 alphabet (state-relative)
constexpr int SYM_PER_EP = 32;
// endpoint D takes part with a reduced symbol set {U, F, I, L, payload-type 0}
constexpr int ND = 5;
static const int kDKinds[ND] = {0, 2, 5, 6, 12};
constexpr int EPLESS = 3 * SYM_PER_EP + ND;   // first endpoint-less symbol
constexpr int NSYM = EPLESS + 5;
static const char* kSymName[SYM_PER_EP] = {"U", "UU", "F", "Ft", "F2", "I", "L", "Ib", "Lb", "Lv", "Lt", "It", "Z", "E", "O", "H", "UF", "P", "UI", "UL", "P1", "T0", "L0", "Z0", "Id", "Ld", "Ld0", "Sh", "Sl", "Ir", "XF", "Lx"};

static std::string symName(int sym)
{
    if (sym >= EPLESS)
        return sym == EPLESS ? "short5" : (sym == EPLESS + 1 ? "null" : (sym == EPLESS + 2 ? "tecmp" : (sym == EPLESS + 3 ? "tecmp-dev0" : "tecmp-dev1")));
    if (sym >= 3 * SYM_PER_EP)
        return std::string("D:") + kSymName[kDKinds[sym - 3 * SYM_PER_EP]];
    return std::string(1, kEp[sym / SYM_PER_EP].name) + ":" + kSymName[sym % SYM_PER_EP];
}

static Bytes symbolFrame(int sym, const ref::ReassemblyModel& m, bool& isNull, int& ep, unsigned salt)
{
    isNull = false;
    ep = -1;
    if (sym == EPLESS)
        return Bytes{1, 0, 0, 1, 1};
    if (sym == EPLESS + 1)
    {
        isNull = true;
        return {};
    }
    if (sym >= EPLESS + 2)
    {
        // well-formed TECMP CAN frames (they yield a packet): from a TECMP device whose id is no endpoint's, and from TECMP devices 0
        // and 1 - the converted packets then carry (device 0, stream 0) = endpoint C resp. the device id of A and B, numbers from
        // another number space that must never be used to address capture-module reassembly state
        ref::TecmpHdr h;
        h.device = sym == EPLESS + 2 ? 0x43 : (sym == EPLESS + 3 ? 0 : 1);
        h.msgType = ref::TM_DATA; h.dataType = ref::TD_CAN; h.ifid = 5; h.ts = 77;
        return ref::tecmpFrame(h, ref::tecmpCanPayload(0x123, 4, {1, 2, 3, 4}, 3));
    }
    ep = sym / SYM_PER_EP;
    int k = sym % SYM_PER_EP;
    if (sym >= 3 * SYM_PER_EP)
    {
        ep = 3;
        k = kDKinds[sym - 3 * SYM_PER_EP];
    }
    const Ep& e = kEp[ep];
    ref::FrameHdr fh;
    fh.device = e.dev; fh.stream = e.str; fh.version = 1; fh.msgType = ref::MT_DATA;
    auto it = m.open.find({e.dev, e.str});
    bool isOpen = it != m.open.end();
    uint16_t next = isOpen ? (uint16_t) (it->second.lastSeq + 1) : 7;
    uint8_t over = isOpen ? it->second.version : 1;
    uint8_t otyp = isOpen ? it->second.msgType : ref::MT_DATA;
    auto seg = [&](uint8_t s, size_t len, unsigned tag) { return ref::mkMsg(0xFE, pattern(len, tag + salt), (uint8_t) (s << 2), 0x500 + tag, 0x600 + tag); };
    switch (k)
    {
        case 0: fh.seq = 50; return ref::buildFrame(fh, {seg(0, 3, 1)});
        case 1: fh.seq = 51; return ref::buildFrame(fh, {seg(0, 3, 2), seg(0, 2, 3)});
        case 2: fh.seq = 100; return ref::buildFrame(fh, {seg(ref::SEG_FIRST, 4, 4)});
        case 3:
        {
            fh.seq = 65535;   // the continuation wraps to 0
            fh.msgType = ref::MT_CONTROL;   // ... on a message of an EVEN type (a carry out of the counter lands in the type's lowest bit)
            Bytes f = ref::buildFrame(fh, {seg(ref::SEG_FIRST, 4, 5)});
            f.resize(f.size() + 300, 0x01);   // a trail that reads as a plausible message header at every offset (see buildStream)
            return f;
        }
        case 4: fh.seq = 32767; fh.version = 2; fh.msgType = ref::MT_STATUS; return ref::buildFrame(fh, {seg(ref::SEG_FIRST, 0, 6)});   // continuation crosses 0x7FFF -> 0x8000
        case 5: fh.seq = next; fh.version = over; fh.msgType = otyp; return ref::buildFrame(fh, {seg(ref::SEG_MID, 3, 7)});
        case 6: fh.seq = next; fh.version = over; fh.msgType = otyp; return ref::buildFrame(fh, {seg(ref::SEG_LAST, 2, 8)});
        case 7: fh.seq = (uint16_t) (next + 1); fh.version = over; fh.msgType = otyp; return ref::buildFrame(fh, {seg(ref::SEG_MID, 3, 9)});
        case 8: fh.seq = (uint16_t) (next + 1); fh.version = over; fh.msgType = otyp; return ref::buildFrame(fh, {seg(ref::SEG_LAST, 2, 10)});
        case 9: fh.seq = next; fh.version = (uint8_t) (over + 1); fh.msgType = otyp; return ref::buildFrame(fh, {seg(ref::SEG_LAST, 2, 11)});
        case 10: fh.seq = next; fh.version = over; fh.msgType = otyp == ref::MT_DATA ? ref::MT_STATUS : ref::MT_DATA; return ref::buildFrame(fh, {seg(ref::SEG_LAST, 2, 12)});
        case 11:
        {
            fh.seq = next; fh.version = over; fh.msgType = otyp;
            Bytes f = ref::buildFrame(fh, {seg(ref::SEG_MID, 1, 13)});
            f.resize(f.size() + 300, 0x01);
            return f;
        }
        case 12:
        {
            fh.seq = 52;
            ref::Msg z = seg(0, 3, 14);
            z.h.ptype = 0;
            return ref::buildFrame(fh, {z});
        }
        case 13:
        {
            fh.seq = 53;
            ref::Msg z = seg(0, 3, 15);
            z.h.flags |= ref::FLAG_ERROR_IN_PAYLOAD;
            return ref::buildFrame(fh, {z});
        }
        case 14:
        {
            fh.seq = 54;
            ref::Msg z = seg(0, 3, 16);
            z.h.plen = 200;
            return ref::buildFrame(fh, {z});
        }
        case 15:
        {
            fh.seq = next;
            return ref::buildFrame(fh, {});
        }
        case 16: fh.seq = 300; return ref::buildFrame(fh, {seg(0, 2, 17), seg(ref::SEG_FIRST, 3, 18)});
        // an unsegmented message followed, in the SAME frame, by a continuation with the right counter: the first supersedes
        // the open message, so the continuation is an orphan
        case 21:
        {
            // a buffer that STARTS LIKE TECMP (first byte 0) but is shorter than a TECMP header, whose bytes 2..3 / 5 equal this
            // endpoint's device / stream id as a CMP header would carry them (e.g. a snap-length-truncated TECMP frame):
            // it is routed to the TECMP decoder and must not touch any capture-module endpoint
            Bytes f(20, 0);
            ref::wr(&f[2], e.dev, 2);
            f[4] = 3; f[5] = e.str; f[6] = 0; f[7] = 9;
            for (size_t i = 8; i < f.size(); ++i)
                f[i] = (uint8_t) (0x30 + i);
            ep = -1;   // endpoint-less for the isolation oracle: fed to the shared decoder only
            return f;
        }
        case 20:
        {
            // frame header plus ONE byte: the shortest remainder that is not a message (aborts like any invalid message)
            fh.seq = next;
            Bytes f = ref::buildFrame(fh, {});
            f.push_back(0x00);   // a zero byte, as padding would be
            return f;
        }
        // frame header followed by 16 zero bytes: looks like padding, parses as a message of payload type 0, i.e. an invalid message,
        // which aborts the endpoint's open message like any other
        case 23:
        {
            fh.seq = next;
            Bytes f = ref::buildFrame(fh, {});
            f.resize(f.size() + 16, 0);
            return f;
        }
        // a LAST segment without payload bytes (completes the message all the same)
        case 22:
        {
            // ... followed by 300 bytes that read as a plausible message header at every offset (see buildStream)
            fh.seq = next; fh.version = over; fh.msgType = otyp;
            Bytes f = ref::buildFrame(fh, {seg(ref::SEG_LAST, 0, 24)});
            f.resize(f.size() + 300, 0x01);
            return f;
        }
        // continuation segments that fit the state of a DEFAULT-CONSTRUCTED reassembly entry or header (version 1, message type 0,
        // counter 0 + 1): on an endpoint without an open message they are orphans like any other, whatever a lookup inserts on the way
        case 24: fh.seq = 1; fh.version = 1; fh.msgType = 0; return ref::buildFrame(fh, {seg(ref::SEG_MID, 5, 25)});
        case 25: fh.seq = 1; fh.version = 1; fh.msgType = 0; return ref::buildFrame(fh, {seg(ref::SEG_LAST, 5, 26)});
        case 26: fh.seq = 1; fh.version = 1; fh.msgType = 0; return ref::buildFrame(fh, {seg(ref::SEG_LAST, 0, 27)});
        // a stray LAST segment on this endpoint that continues ANOTHER endpoint's open message by the numbers (that message's version,
        // type and next counter; 20 payload bytes): whatever state the other endpoint's message has left anywhere, it is not this
        // endpoint's
        case 31:
        {
            uint16_t seqx = 9;
            uint8_t vx = 1, tx = ref::MT_DATA;
            for (auto& kv : m.open)
                if (kv.first != ref::EpKey{e.dev, e.str})
                {
                    seqx = (uint16_t) (kv.second.lastSeq + 1); vx = kv.second.version; tx = kv.second.msgType;
                    break;
                }
            fh.seq = seqx; fh.version = vx; fh.msgType = tx;
            return ref::buildFrame(fh, {seg(ref::SEG_LAST, 20, 32)});
        }
        // a well-formed message whose TYPED payload its class rejects (a CAN frame reporting a CRC error: delivered, marked invalid)
        // followed in the same frame by a first segment: the decoder steps over the rejected payload by its declared length
        case 30:
        {
            ref::CanF c;
            c.idword = 0x2AB; c.dlc = 4; c.dataLen = 4; c.data = pattern(4, 30); c.flags = 0x0001;
            fh.seq = 310;
            return ref::buildFrame(fh, {ref::mkMsg(ref::PT_CAN, ref::canPayload(c), 0, 0x531, 0x631), seg(ref::SEG_FIRST, 3, 31)});
        }
        // the intermediary segment of symbol I once more, byte for byte, with the counter the open message saw LAST (a frame duplicated
        // on a redundant link): not the next segment, so it ends the message like any other out-of-sequence continuation
        case 29: fh.seq = (uint16_t) (next - 1); fh.version = over; fh.msgType = otyp; return ref::buildFrame(fh, {seg(ref::SEG_MID, 3, 7)});
        // unsegmented, well-formed capture-module status messages whose CONTENT tells a story (uptime high, then low as after a restart of
        // the device; clock identity changing): what a message says never changes what the decoder does with other messages
        case 27:
        case 28:
        {
            ref::CmF c;
            c.uptime = k == 27 ? 0x0000010000000000ull : 5;
            c.gmIdentity = k == 27 ? 0x1122334455667788ull : 0;
            c.gmClockQuality = k == 27 ? 7 : 0;
            c.s[0] = ref::strSection("dev"); c.s[1] = ref::strSection(k == 27 ? "sn1" : "sn2"); c.s[2] = ref::strSection("hw"); c.s[3] = ref::strSection("sw");
            fh.seq = (uint16_t) (60 + k);
            fh.msgType = ref::MT_STATUS;
            return ref::buildFrame(fh, {ref::mkMsg(ref::PT_CM, ref::cmPayload(c), 0, k == 27 ? 0x900 : 0x100, 0x0042)});
        }
        case 18: fh.seq = next; fh.version = over; fh.msgType = otyp; return ref::buildFrame(fh, {seg(0, 2, 20), seg(ref::SEG_MID, 3, 21)});
        case 19: fh.seq = next; fh.version = over; fh.msgType = otyp; return ref::buildFrame(fh, {seg(0, 2, 22), seg(ref::SEG_LAST, 2, 23)});
        default:
        {
            fh.seq = 55;
            Bytes f = ref::buildFrame(fh, {seg(0, 3, 19)});
            f.resize(8 + 10);
            return f;
        }
    }
}

static void symStep(W& w, Sys& s, int sym, char oracle, const std::string& where)
{
    bool isNull;
    int ep;
    Bytes f = symbolFrame(sym, s.m, isNull, ep, 0);
    auto got = step(w, s, f, isNull, ep, oracle, where);
    (void) got;
}

static std::string showSyms(const std::vector<int>& path)
{
    std::string s = "k=sym;s=";
    for (size_t i = 0; i < path.size(); ++i)
        s += (i ? "," : "") + std::to_string(path[i]);
    s += ";names=";
    for (size_t i = 0; i < path.size(); ++i)
        s += (i ? " " : "") + symName(path[i]);
    return s;
}

// a small sharp sub-alphabet for a DEEPER unmerged tree (state the pending-table dump does not show, e.g. a counter
// added to the decoder, is invisible to the merged BFS): endpoints A, B (same device) and D x {U, F, I, L, payload-type 0, [U][L]}
static std::vector<int> sharpAlphabet()
{
    std::vector<int> a;
    for (int ep = 0; ep < 2; ++ep)
        for (int k : {0, 2, 5, 6, 12, 19})
            a.push_back(ep * SYM_PER_EP + k);
    a.push_back(0 * SYM_PER_EP + 21);   // truncated TECMP-like buffer carrying A's ids
    a.push_back(0 * SYM_PER_EP + 22);   // zero-length last segment of A
    a.push_back(0 * SYM_PER_EP + 25);   // last segment of A fitting a default-constructed entry
    a.push_back(0 * SYM_PER_EP + 29);   // the intermediary segment of A repeated verbatim
    a.push_back(0 * SYM_PER_EP + 27);   // status messages of A: uptime high / low
    a.push_back(0 * SYM_PER_EP + 28);
    for (int i = 0; i < ND; ++i)
        a.push_back(3 * SYM_PER_EP + i);
    return a;
}
static std::vector<int> fullAlphabet()
{
    std::vector<int> a;
    for (int k = 0; k < NSYM; ++k)
        a.push_back(k);
    return a;
}

static void dfsSym(W& w, const Sys& s, std::vector<int>& path, int target, char oracle, const std::vector<int>& alpha)
{
    for (int k : alpha)
    {
        path.push_back(k);
        if ((int) path.size() == target)
        {
            auto desc = [&] { return showSyms(path); };
            if (w.begin_case(desc))
            {
                Sys n = s;
                symStep(w, n, k, oracle, fmt("step %zu (%s)", path.size(), symName(k).c_str()));
                w.add(mc::C_TRANS, 1);
                w.add(mc::C_STATES, 1);
                w.add(mc::C_TRACES, 1);
                w.outcome(stateHash(n, 3));
            }
        }
        else
        {
            Sys n = s;
            W silent;
            silent.single = true;
            symStep(silent, n, k, oracle, "");
            dfsSym(w, n, path, target, oracle, alpha);
        }
        path.pop_back();
    }
}

static void replaySyms(W& w, const std::string& cs, char oracle)
{
    auto kv = mc::kv_parse(cs);
    Sys s;
    int i = 0;
    for (auto& t : mc::split(kv["s"], ','))
    {
        int k = atoi(t.c_str());
        if (k < 0 || k >= NSYM)
            continue;
        ++i;
        symStep(w, s, k, oracle, fmt("step %d (%s)", i, symName(k).c_str()));
    }
}

// ---- BFS with state merging on (model state, verifPending dump) --------------------------------
struct BfsRec
{
    uint64_t h1, h2;
    uint8_t len;
    uint8_t hist[15];
};
struct BfsShared
{
    std::atomic<uint64_t> n;
    uint64_t cap;
    BfsRec recs[1];
};

struct HistLess
{
    bool operator()(const BfsRec& a, const BfsRec& b) const
    {
        if (a.h1 != b.h1) return a.h1 < b.h1;
        if (a.h2 != b.h2) return a.h2 < b.h2;
        if (a.len != b.len) return a.len < b.len;
        return memcmp(a.hist, b.hist, a.len) < 0;
    }
};

static void runBfs(mc::Run& run, int maxDepth, char oracle)
{
    const uint64_t cap = 12u << 20;
    size_t sz = sizeof(BfsShared) + cap * sizeof(BfsRec);
    auto sh = static_cast<BfsShared*>(mmap(nullptr, sz, PROT_READ | PROT_WRITE, MAP_SHARED | MAP_ANONYMOUS | MAP_NORESERVE, -1, 0));
    new (&sh->n) std::atomic<uint64_t>(0);
    sh->cap = cap;
    std::set<std::pair<uint64_t, uint64_t>> seen;
    std::vector<BfsRec> frontier;
    {
        Sys s0;
        BfsRec r{};
        r.h1 = stateHash(s0, 1);
        r.h2 = stateHash(s0, 2);
        r.len = 0;
        frontier.push_back(r);
        seen.insert({r.h1, r.h2});
    }
    uint64_t totalStates = 1;
    for (int depth = 1; depth <= maxDepth && !frontier.empty(); ++depth)
    {
        sh->n.store(0);
        const size_t chunk = 16;
        uint64_t nout = (frontier.size() + chunk - 1) / chunk;
        bool done = run.round(fmt("BFS level %d: %zu merged states x %d symbols", depth, frontier.size(), NSYM), nout, [&](W& w, uint64_t o) {
            std::set<std::pair<uint64_t, uint64_t>> local;
            for (size_t fi = o * chunk; fi < std::min(frontier.size(), (o + 1) * chunk); ++fi)
            {
                const BfsRec& fr = frontier[fi];
                Sys base;
                W silent;
                silent.single = true;
                for (int i = 0; i < fr.len; ++i)
                    symStep(silent, base, fr.hist[i], oracle, "");
                for (int k = 0; k < NSYM; ++k)
                {
                    std::vector<int> path(fr.hist, fr.hist + fr.len);
                    path.push_back(k);
                    auto desc = [&] { return showSyms(path); };
                    if (!w.begin_case(desc))
                        continue;
                    Sys n = base;
                    symStep(w, n, k, oracle, fmt("step %zu (%s)", path.size(), symName(k).c_str()));
                    w.add(mc::C_TRANS, 1);
                    uint64_t h1 = stateHash(n, 1), h2 = stateHash(n, 2);
                    w.outcome(h1);
                    if (seen.count({h1, h2}) || local.count({h1, h2}))
                        continue;
                    local.insert({h1, h2});
                    uint64_t idx = sh->n.fetch_add(1);
                    if (idx < sh->cap)
                    {
                        BfsRec& r = sh->recs[idx];
                        r.h1 = h1; r.h2 = h2; r.len = (uint8_t) path.size();
                        for (size_t i = 0; i < path.size(); ++i)
                            r.hist[i] = (uint8_t) path[i];
                    }
                }
            }
        });
        uint64_t n = std::min<uint64_t>(sh->n.load(), sh->cap);
        if (sh->n.load() > sh->cap)
            run.exhaustive = false;
        std::vector<BfsRec> recs(sh->recs, sh->recs + n);
        std::sort(recs.begin(), recs.end(), HistLess());
        frontier.clear();
        for (auto& r : recs)
            if (seen.insert({r.h1, r.h2}).second)
                frontier.push_back(r);
        totalStates += frontier.size();
        if (!done)
            break;
    }
    run.c[mc::C_STATES] += totalStates;
    run.extra.push_back({"bfs_merged_states", mc::Json::num(totalStates)});
    munmap(sh, sz);
}

// Fan-out: MANY endpoints with a message in progress at the same time (a table that is rehashed, capped or swept at some size
// shows only then). N endpoints each send a first segment, then the last segments arrive in one of three orders; every message must
// be delivered once with its own bytes (M), exactly as a decoder that only sees that endpoint delivers it (S), and the pending
// table must hold exactly the endpoints still open after every frame (P).
static void fanOut(W& w, char oracle, int n, int order)
{
    Sys s;
    std::vector<Decoder> solo(oracle == 'S' ? (size_t) n : 0);
    auto epOf = [](int i, uint16_t& dev, uint8_t& str) {
        dev = (uint16_t) (1 + (i >> 2) + ((i & 0x40) ? 0x0100 : 0));
        str = (uint8_t) ((i & 3) * 0x41);
    };
    auto frame = [&](int i, bool last) {
        ref::FrameHdr fh;
        epOf(i, fh.device, fh.stream);
        fh.version = 1; fh.msgType = ref::MT_DATA;
        uint16_t start = (i & 1) ? 65535 : 10;
        fh.seq = (uint16_t) (start + (last ? 1 : 0));
        Bytes body = pattern(last ? 2 : 3, (unsigned) (i * 2 + (last ? 1 : 0)));
        return ref::buildFrame(fh, {ref::mkMsg(0xFE, body, (uint8_t) ((last ? ref::SEG_LAST : ref::SEG_FIRST) << 2), 0x4000 + i, 0x7000 + i)});
    };
    auto feed = [&](int i, bool last, int pos) {
        Bytes f = frame(i, last);
        std::string where = fmt("frame %d (%s segment of endpoint #%d of %d)", pos, last ? "last" : "first", i, n);
        // the pending-table dump costs O(N^2) per call (sorted copy of the whole table): above 600 endpoints the invariant is
        // evaluated at 48 (above 5000 endpoints: 12) evenly spaced positions and behind the last frame instead of behind every frame
        const bool judgeHere = oracle != 'P' || n <= 600 || pos % std::max(1, 2 * n / (n <= 5000 ? 48 : 12)) == 0 || pos == 2 * n - 1;
        auto got = step(w, s, f, false, -1, oracle == 'S' || !judgeHere ? 'n' : oracle, where);
        if (oracle == 'S')
        {
            auto sg = decodeCopy(w, solo[i], f, false);
            if (sg.size() != got.size())
                w.fail("isolation:delivery-count-differs-from-solo-decoder",
                       where + fmt(": shared decoder returned %zu packet(s), a decoder fed only this endpoint's frames returned %zu", got.size(), sg.size()));
            else
                for (size_t k = 0; k < got.size(); ++k)
                {
                    std::string d = diffObs(got[k], sg[k]);
                    if (!d.empty())
                        w.fail("isolation:delivered-packet-differs-from-solo-decoder:" + d, where + ": shared " + obs::show(got[k]) + " solo " + obs::show(sg[k]));
                }
        }
        w.add(mc::C_TRANS, 1);
        w.add(mc::C_STATES, 1);
    };
    int pos = 0;
    for (int i = 0; i < n; ++i)
        feed(i, false, pos++);
    if (order == 0)
        for (int i = 0; i < n; ++i)
            feed(i, true, pos++);
    else if (order == 1)
        for (int i = n - 1; i >= 0; --i)
            feed(i, true, pos++);
    else
    {
        for (int i = 0; i < n; i += 2)
            feed(i, true, pos++);
        for (int i = 1; i < n; i += 2)
            feed(i, true, pos++);
    }
    if (oracle == 'P' && !s.d.verifPending().empty())
        w.fail("pending-state:kept-for-endpoint-without-open-message", fmt("after all %d messages were completed the decoder still holds %zu pending entries", n, s.d.verifPending().size()));
    w.add(mc::C_TRACES, 1);
    w.outcome(mc::mix(stateHash(s, 77), (uint64_t) n * 4 + order));
}

// Long gap: endpoint A's message F .. I .. L (counters 65534, 65535, 0) with `gap` frames of OTHER traffic between its segments.
// Whatever the decoder does on the side as traffic goes by (ageing, sweeping, counting frames or message starts, table
// maintenance) must not touch A's message however long the gap is. Filler kinds: 0 unsegmented frames of endpoint B, 1 first
// segments of B (each supersedes the one before: messages whose tail is lost), 2 complete F,L messages of B, 3 alternately a
// first segment on one of 40 further endpoints and its last segment 40 frames later, 4 buffers without endpoint (5 bytes /
// nullptr / TECMP-like). Oracles as everywhere: M model lock-step, S solo decoders for A and B, P pending-table invariant.
static void longGap(W& w, char oracle, int kind, int gap)
{
    Sys s;
    std::vector<Decoder> solo(2);
    uint16_t bseq = 7;
    auto feed = [&](const Bytes& f, int ep, bool isNull, const std::string& where) {
        // ep 0 = A, 1 = B (kEp[0], kEp[1]), -1 = endpoint-less, -2 = one of the further endpoints (no solo decoder)
        auto got = step(w, s, f, isNull, -1, oracle == 'S' ? 'n' : oracle, where);
        if (oracle == 'S' && (ep == 0 || ep == 1))
        {
            auto sg = decodeCopy(w, solo[ep], f, false);
            if (sg.size() != got.size())
                w.fail("isolation:delivery-count-differs-from-solo-decoder",
                       where + fmt(": shared decoder returned %zu packet(s), a decoder fed only this endpoint's frames returned %zu", got.size(), sg.size()));
            else
                for (size_t k = 0; k < got.size(); ++k)
                {
                    std::string d = diffObs(got[k], sg[k]);
                    if (!d.empty())
                        w.fail("isolation:delivered-packet-differs-from-solo-decoder:" + d, where + ": shared " + obs::show(got[k]) + " solo " + obs::show(sg[k]));
                }
        }
        if (oracle == 'S' && ep == -1 && !got.empty())
            w.fail("isolation:endpoint-less-buffer-delivered-cmp-packets", where);
        w.add(mc::C_TRANS, 1);
        w.add(mc::C_STATES, 1);
        return got.size();
    };
    auto segA = [&](int q) {
        ref::FrameHdr fh;
        fh.device = kEp[0].dev; fh.stream = kEp[0].str; fh.version = 1; fh.msgType = ref::MT_DATA;
        fh.seq = (uint16_t) (65534 + q);
        uint8_t sg = q == 0 ? ref::SEG_FIRST : (q == 2 ? ref::SEG_LAST : ref::SEG_MID);
        return ref::buildFrame(fh, {ref::mkMsg(0xFE, pattern(6, 40 + q), (uint8_t) (sg << 2), 0x51000, 0x61000)});
    };
    auto filler = [&](int j, int& ep, bool& isNull) {
        ref::FrameHdr fh;
        fh.device = kEp[1].dev; fh.stream = kEp[1].str; fh.version = 1; fh.msgType = ref::MT_DATA;
        isNull = false;
        ep = 1;
        switch (kind)
        {
            case 0: fh.seq = bseq++; return ref::buildFrame(fh, {ref::mkMsg(0xFE, pattern(3, j), 0, 0x52000 + j, 0x62000)});
            case 1: fh.seq = bseq; bseq += 3; return ref::buildFrame(fh, {ref::mkMsg(0xFE, pattern(4, j), (uint8_t) (ref::SEG_FIRST << 2), 0x53000 + j, 0x63000)});
            case 2:
                fh.seq = bseq++;
                return ref::buildFrame(fh, {ref::mkMsg(0xFE, pattern(4, j / 2), (uint8_t) ((j % 2 ? ref::SEG_LAST : ref::SEG_FIRST) << 2), 0x54000 + j / 2, 0x64000)});
            case 3:
            {
                // j-th filler: opens a message on further endpoint (j % 40), or - 40 frames later - completes it
                int e = j % 40, phase = (j / 40) % 2;
                ep = -2;
                fh.device = (uint16_t) (0x0200 + e); fh.stream = (uint8_t) (e * 7);
                fh.seq = (uint16_t) (100 + phase);
                return ref::buildFrame(fh, {ref::mkMsg(0xFE, pattern(2, e), (uint8_t) ((phase ? ref::SEG_LAST : ref::SEG_FIRST) << 2), 0x55000 + e, 0x65000)});
            }
            default:
            {
                ep = -1;
                if (j % 3 == 0)
                    return Bytes{1, 0, 1, 1, 1};
                if (j % 3 == 1)
                {
                    isNull = true;
                    return Bytes{};
                }
                Bytes t(20, 0);
                t[2] = (uint8_t) (kEp[0].dev >> 8); t[3] = (uint8_t) kEp[0].dev; t[5] = kEp[0].str;
                return t;
            }
        }
    };
    int j = 0;
    for (int q = 0; q < 3; ++q)
    {
        size_t n = feed(segA(q), 0, false, fmt("segment %d of A's message (gap %d frames of filler kind %d)", q, gap, kind));
        if (oracle != 'M' && oracle != 'S' && q == 2 && n != 1)
            w.fail("pending-state:missing-for-open-message", fmt("A's message was not delivered with its last segment after gaps of %d frames (filler kind %d)", gap, kind));
        if (q == 2)
            break;
        for (int g = 0; g < gap; ++g, ++j)
        {
            int ep;
            bool isNull;
            Bytes f = filler(j, ep, isNull);
            feed(f, ep, isNull, fmt("filler %d (kind %d) behind segment %d of A's message", j, kind, q));
        }
    }
    w.add(mc::C_TRACES, 1);
    w.outcome(mc::mix(stateHash(s, 78), (uint64_t) gap * 8 + kind));
}

static std::vector<int> gapSizes(bool thorough)
{
    // sizes above 10000 go with the filler kinds 0..2 only in the quick tier (see the round)
    std::vector<int> v = {1, 31, 32, 33, 63, 64, 65, 66, 127, 128, 129, 255, 256, 257, 511, 512, 513, 1023, 1024, 1025, 2047, 2048, 2049, 4095, 4096, 4097, 8191, 8192, 8193, 65535, 65536, 65537};
    if (thorough)
        for (int x : {32767, 32768, 32769, 70000, 131071, 131072, 131073, 300000})
            v.push_back(x);
    return v;
}

// Oversize: segmented messages whose segments add up to MORE than the 65535 bytes a payload length can express (no well-formed
// sender produces them, but "any history of frames" contains them). What is delivered for them is not judged; the pending table
// is: the last segment completes the message and releases its buffer like any other (C17), and the other endpoints see nothing
// of it (C18). Variants: segment size lists; every variant on each of the four endpoints, followed by an unsegmented frame of
// another endpoint.
static const std::vector<std::vector<uint32_t>>& oversizeVariants()
{
    static const std::vector<std::vector<uint32_t>> v = {
        {40000, 25535}, {40000, 25536}, {65535, 1}, {65535, 0}, {65519, 16}, {65519, 17}, {30000, 30000, 5535}, {30000, 30000, 5536}, {65535, 65535, 65535},
        {1, 65535}, {32768, 32768}, {32767, 32768}, {60000, 5536, 0}, {65535, 65535}, {20000, 20000, 20000, 20000},
    };
    return v;
}
static void oversize(W& w, char oracle, int variant, int epi)
{
    Sys s;
    const auto& sizes = oversizeVariants()[variant];
    uint16_t seq = 65535 - 1;
    for (size_t q = 0; q < sizes.size(); ++q)
    {
        ref::FrameHdr fh;
        fh.device = kEp[epi].dev; fh.stream = kEp[epi].str; fh.version = 1; fh.msgType = ref::MT_DATA;
        fh.seq = seq++;
        uint8_t sg = q == 0 ? ref::SEG_FIRST : (q + 1 == sizes.size() ? ref::SEG_LAST : ref::SEG_MID);
        Bytes f = ref::buildFrame(fh, {ref::mkMsg(0xFE, pattern(sizes[q], (unsigned) q), (uint8_t) (sg << 2), 0x58000, 0x68000)});
        step(w, s, f, false, epi, oracle == 'M' ? 'N' : oracle, fmt("segment %zu (%u bytes) of a %zu-segment message on endpoint %c", q, sizes[q], sizes.size(), kEp[epi].name));
        w.add(mc::C_TRANS, 1);
        w.add(mc::C_STATES, 1);
    }
    if (oracle == 'P' && !s.d.verifPending().empty())
        w.fail("pending-state:kept-for-endpoint-without-open-message",
               fmt("after the last segment of a message of %zu segments (first %u bytes) the decoder still holds %zu pending entries", sizes.size(), sizes[0], s.d.verifPending().size()));
    int other = (epi + 1) % NEP;
    ref::FrameHdr fh;
    fh.device = kEp[other].dev; fh.stream = kEp[other].str; fh.version = 1; fh.msgType = ref::MT_DATA; fh.seq = 3;
    step(w, s, ref::buildFrame(fh, {ref::mkMsg(0xFE, pattern(3, 9), 0, 0x59000, 0x69000)}), false, other, oracle == 'M' ? 'N' : oracle, "unsegmented frame of another endpoint afterwards");
    w.add(mc::C_TRACES, 1);
    w.outcome(mc::mix(stateHash(s, 79), (uint64_t) variant * 4 + epi));
}

static std::vector<int> fanSizes(bool thorough)
{
    std::vector<int> v = {5, 7, 8, 9, 15, 16, 17, 31, 32, 33, 63, 64, 65, 100, 127, 128, 129, 255, 256, 257, 1000};
    if (thorough)
        for (int x : {511, 512, 513, 1023, 1024, 1025, 4095, 4096, 4097, 10000})
            v.push_back(x);
    return v;
}

// ---------------------------------------------------------------------------------------------
// C06: fault sequences
struct Sent
{
    int ep;
    uint8_t ptype;
    uint64_t ts;
    uint32_t idword;
    uint8_t flags;
    Bytes payload;
    std::vector<int> frames;   // base frame indices carrying it
};
struct BaseHist
{
    std::vector<Bytes> frames;
    std::vector<int> frameEp;
    std::vector<Sent> sent;
};
struct Inst
{
    int base;
    bool modified;
    Bytes bytes;
    int abortAt = 0;   // n > 0: the n-th allocation inside this decode call fails (the call ends with std::bad_alloc)
};

static Packet mkPacket(uint8_t mt, size_t len, unsigned tag)
{
    Packet p;
    p.setTimestamp(0x100000 + tag);
    p.setInterfaceId(0x330000 + tag);
    p.setVendorId((uint16_t) (0x4400 + tag));
    p.setCommonFlags(0x01);
    Bytes d = pattern(len, tag);
    p.setPayload(Payload(PayloadType(static_cast<CmpHeader::MessageType>(mt), 0xFE), d.data(), d.size()));
    return p;
}

static void indexBase(BaseHist& h)
{
    // map messages to sent packets by timestamp (every sent packet has a distinct one)
    for (size_t fi = 0; fi < h.frames.size(); ++fi)
    {
        ref::Walked wk = ref::walk(h.frames[fi]);
        for (auto& m : wk.msgs)
            for (auto& s : h.sent)
                if (s.ts == m.h.ts && s.ep == h.frameEp[fi])
                    if (s.frames.empty() || s.frames.back() != (int) fi)
                        s.frames.push_back((int) fi);
    }
}

static BaseHist baseHistory(int which)
{
    BaseHist h;
    auto encodeFor = [&](int ep, size_t mn, size_t mx, unsigned tagBase, std::vector<Bytes>& out, std::vector<Sent>& sent) {
        Encoder e;
        e.setDeviceId(kEp[ep].dev);
        e.setStreamId(kEp[ep].str);
        const size_t u = mx - 24;
        std::vector<size_t> lens = {3, 4, 2 * u + 1, 5, u + 2, 3 * u + 3, 2};
        std::vector<Packet> batch;
        for (size_t i = 0; i < lens.size(); ++i)
        {
            batch.push_back(mkPacket(ref::MT_DATA, lens[i], tagBase + (unsigned) i));
            Sent s;
            s.ep = ep; s.ptype = 0xFE; s.ts = 0x100000 + tagBase + i; s.idword = 0x330000 + tagBase + (unsigned) i; s.flags = 0x01;
            s.payload = pattern(lens[i], tagBase + (unsigned) i);
            sent.push_back(s);
        }
        out = e.encode(batch.begin(), batch.end(), DataContext{mn, mx});
    };
    if (which == 0 || which == 1)
    {
        std::vector<Bytes> f;
        encodeFor(0, which == 0 ? 0 : 64, which == 0 ? 40 : 100, 10, f, h.sent);
        h.frames = f;
        h.frameEp.assign(f.size(), 0);
    }
    else if (which == 2 || which == 5)
    {
        // base 5: the second endpoint is D, which differs from A in the HIGH byte of the device id only, and its frames are zero-padded
        // to 64 bytes (the padding parses as a message of payload type 0, i.e. every padded frame ends in an invalid message)
        // base 2: endpoints C = (0,0) (the ids of a default encoder) and B
        std::vector<Bytes> fa, fb;
        const int epA = which == 2 ? 2 : 0;
        encodeFor(epA, 0, 40, 10, fa, h.sent);
        if (which == 2)
            encodeFor(1, 0, 40, 60, fb, h.sent);
        else
            encodeFor(3, 64, 100, 60, fb, h.sent);
        const int epB = which == 2 ? 1 : 3;
        size_t i = 0, j = 0;
        while (i < fa.size() || j < fb.size())
        {
            if (i < fa.size()) { h.frames.push_back(fa[i++]); h.frameEp.push_back(epA); }
            if (j < fb.size()) { h.frames.push_back(fb[j++]); h.frameEp.push_back(epB); }
        }
    }
    else if (which == 6)
    {
        // long base: endpoint A's 3-segment message with 70 complete 2-segment messages of endpoint B between its first and second
        // segment and 70 first segments of B (messages whose tail is lost) between its second and third; then one more message each.
        // (A decoder that ages, sweeps or caps its table by counting frames or message starts shows only on histories of this length.)
        uint16_t seqA = 65533, seqB = 20;
        unsigned tag = 300;
        auto frameOf = [&](int ep, uint16_t& seq, uint8_t sg, const Bytes& body, uint64_t ts, uint32_t idw) {
            ref::FrameHdr x;
            x.device = kEp[ep].dev; x.stream = kEp[ep].str; x.seq = seq++;
            h.frames.push_back(ref::buildFrame(x, {ref::mkMsg(0xFE, body, (uint8_t) (0x10 | (sg << 2)), ts, idw)}));
            h.frameEp.push_back(ep);
        };
        Sent a;
        a.ep = 0; a.ptype = 0xFE; a.ts = 0x200000 + tag; a.idword = 0x550000 + tag; a.flags = 0x10; a.payload = pattern(15, tag);
        ++tag;
        auto segA = [&](int q) {
            frameOf(0, seqA, q == 0 ? ref::SEG_FIRST : (q == 2 ? ref::SEG_LAST : ref::SEG_MID), Bytes(a.payload.begin() + 5 * q, a.payload.begin() + 5 * q + 5), a.ts, a.idword);
        };
        segA(0);
        for (int k = 0; k < 70; ++k)
        {
            Sent b;
            b.ep = 1; b.ptype = 0xFE; b.ts = 0x200000 + tag; b.idword = 0x550000 + tag; b.flags = 0x10; b.payload = pattern(6, tag);
            frameOf(1, seqB, ref::SEG_FIRST, Bytes(b.payload.begin(), b.payload.begin() + 3), b.ts, b.idword);
            frameOf(1, seqB, ref::SEG_LAST, Bytes(b.payload.begin() + 3, b.payload.end()), b.ts, b.idword);
            h.sent.push_back(b);
            ++tag;
        }
        segA(1);
        for (int k = 0; k < 70; ++k)
        {
            frameOf(1, seqB, ref::SEG_FIRST, pattern(3, tag), 0x200000 + tag, 0x550000 + tag);   // never completed: not a sent message
            ++seqB;
            ++tag;
        }
        segA(2);
        h.sent.push_back(a);
        for (int ep = 0; ep < 2; ++ep)
        {
            Sent u;
            u.ep = ep; u.ptype = 0xFE; u.ts = 0x200000 + tag; u.idword = 0x550000 + tag; u.flags = 0x10; u.payload = pattern(4, tag);
            frameOf(ep, ep ? seqB : seqA, ref::SEG_NONE, u.payload, u.ts, u.idword);
            h.sent.push_back(u);
            ++tag;
        }
    }
    else
    {
        // independent builder, counters 65530.. crossing the wrap inside a 4-segment message
        uint16_t seq = which == 3 ? 65530 : 32762;   // base 4 crosses the sign boundary 0x7FFF -> 0x8000 instead of the wrap
        unsigned tag = 200;
        auto fh = [&]() {
            ref::FrameHdr x;
            x.device = kEp[0].dev; x.stream = kEp[0].str; x.seq = seq++;
            return x;
        };
        auto addU = [&]() {
            Sent s;
            s.ep = 0; s.ptype = 0xFE; s.ts = 0x200000 + tag; s.idword = 0x550000 + tag; s.flags = 0x10; s.payload = pattern(4, tag);
            h.frames.push_back(ref::buildFrame(fh(), {ref::mkMsg(0xFE, s.payload, 0x10, s.ts, s.idword)}));
            h.frameEp.push_back(0);
            h.sent.push_back(s);
            ++tag;
        };
        auto addSeg = [&](int k) {
            Sent s;
            s.ep = 0; s.ptype = 0xFE; s.ts = 0x200000 + tag; s.idword = 0x550000 + tag; s.flags = 0x10; s.payload = pattern(5 * k, tag);
            for (int q = 0; q < k; ++q)
            {
                uint8_t sg = q == 0 ? ref::SEG_FIRST : (q + 1 == k ? ref::SEG_LAST : ref::SEG_MID);
                Bytes body(s.payload.begin() + 5 * q, s.payload.begin() + 5 * q + 5);
                h.frames.push_back(ref::buildFrame(fh(), {ref::mkMsg(0xFE, body, (uint8_t) (0x10 | (sg << 2)), s.ts, s.idword)}));
                h.frameEp.push_back(0);
            }
            h.sent.push_back(s);
            ++tag;
        };
        addU(); addSeg(3); addU(); addSeg(4); addSeg(2); addU();
    }
    indexBase(h);
    return h;
}

enum FaultKind { F_DROP, F_DUP_AFTER, F_DUP_LATER, F_SWAP, F_CVER, F_CTYPE, NFAULT };
static const char* kFaultName[NFAULT] = {"drop", "dup", "dup2", "swap", "cver", "ctyp"};
// Aborted decode calls (environment fault: memory exhaustion): kinds NFAULT + 2 * (n - 1) + r, n = 1 .. MAXABORT: the n-th allocation
// inside the decode call of the frame at that position fails; r = 0: the frame is lost with the call, r = 1: the caller presents
// the same frame again afterwards (retry). A decode call of the base histories makes fewer than MAXABORT allocations; an n beyond
// the allocations of the actual call is not a fault and the sequence is skipped.
constexpr int MAXABORT = 14;
constexpr int NFAULT_ALL = NFAULT + 2 * MAXABORT;
static std::string faultName(int kind)
{
    if (kind < NFAULT)
        return kFaultName[kind];
    return fmt("%s%d", (kind - NFAULT) % 2 ? "abortretry" : "abort", (kind - NFAULT) / 2 + 1);
}
static int faultKind(const std::string& name)
{
    for (int k = 0; k < NFAULT_ALL; ++k)
        if (faultName(k) == name)
            return k;
    return -1;
}

static bool applyFault(std::vector<Inst>& seq, int kind, size_t pos)
{
    if (pos >= seq.size())
        return false;
    switch (kind)
    {
        case F_DROP: seq.erase(seq.begin() + pos); return true;
        case F_DUP_AFTER: seq.insert(seq.begin() + pos + 1, seq[pos]); return true;
        case F_DUP_LATER:
        {
            Inst c = seq[pos];
            size_t at = std::min(seq.size(), pos + 3);
            seq.insert(seq.begin() + at, c);
            return true;
        }
        case F_SWAP:
            if (pos + 1 >= seq.size())
                return false;
            std::swap(seq[pos], seq[pos + 1]);
            return true;
        case F_CVER: seq[pos].bytes[0] = (uint8_t) (seq[pos].bytes[0] == 1 ? 2 : 1); seq[pos].modified = true; return true;
        case F_CTYPE: seq[pos].bytes[4] = (uint8_t) (seq[pos].bytes[4] == 1 ? 3 : 1); seq[pos].modified = true; return true;
    }
    if (kind >= NFAULT && kind < NFAULT_ALL)
    {
        if (seq[pos].abortAt)
            return false;
        if ((kind - NFAULT) % 2)
            seq.insert(seq.begin() + pos + 1, seq[pos]);   // the retry: same bytes, presented again
        seq[pos].abortAt = (kind - NFAULT) / 2 + 1;
        seq[pos].modified = true;   // an aborted call is not an arrival of the frame as far as the recovery clause is concerned
        return true;
    }
    return false;
}

struct FaultCase
{
    int base;
    std::vector<std::pair<int, int>> faults;   // (kind, position)
};
static std::string showFault(const FaultCase& c)
{
    std::string s = fmt("k=fault;base=%d;f=", c.base);
    for (size_t i = 0; i < c.faults.size(); ++i)
        s += fmt("%s%s@%d", i ? "," : "", faultName(c.faults[i].first).c_str(), c.faults[i].second);
    return s;
}

// One decode call in which the n-th allocation fails. Only the library's own allocations are numbered (armed directly around the
// call). Returns false if the call made fewer than n allocations (no fault happened).
static bool decodeAborted(W& w, Decoder& d, const Bytes& f, int n, std::vector<obs::PObs>& out)
{
    uint8_t* copy = static_cast<uint8_t*>(malloc(f.size() ? f.size() : 1));
    memcpy(copy, f.data(), f.size());
    std::vector<std::shared_ptr<Packet>> pk;
    bool thrown = false;
    mc::af::arm(n);
    try
    {
        pk = d.decode(copy, f.size());
    }
    catch (const std::bad_alloc&)
    {
        thrown = true;
    }
    const bool fired = mc::af::disarm();
    free(copy);
    if (fired && !thrown)
        w.fail("aborted-call:allocation-failure-swallowed", fmt("allocation %d of the decode call failed, the call returned %zu packet(s) instead of reporting the failure", n, pk.size()));
    for (auto& p : pk)
        if (p)
            out.push_back(obs::observe(*p));
    return fired;
}

// oracle 'M': lock-step with the reassembly model + integrity + recovery (C06); sequences with an aborted call are judged by
// integrity and recovery only (after an aborted call the decoder may legitimately be in its state before or after the frame).
// oracle 'S': every delivery for an endpoint that had no aborted call is compared with a solo decoder fed only that endpoint's
// frames (C18: a fault while decoding one endpoint's frame must not change what the others get).
static void judgeFaulted(W& w, const BaseHist& h, const std::vector<Inst>& seq, char oracle = 'M')
{
    Sys s;
    bool anyAbort = false;
    for (auto& i : seq)
        anyAbort = anyAbort || i.abortAt;
    bool tainted[NEP] = {false, false, false, false};
    // expected recoveries: position in seq -> sent ids that must be delivered there
    std::map<size_t, std::vector<int>> mustDeliver;
    for (int ep = 0; ep < NEP; ++ep)
    {
        std::vector<size_t> sub;   // positions of this endpoint's frames
        for (size_t i = 0; i < seq.size(); ++i)
            if (h.frameEp[seq[i].base] == ep)
                sub.push_back(i);
        for (size_t si = 0; si < h.sent.size(); ++si)
        {
            const Sent& m = h.sent[si];
            if (m.ep != ep || m.frames.empty())
                continue;
            for (size_t a = 0; a + m.frames.size() <= sub.size(); ++a)
            {
                bool ok = true;
                for (size_t q = 0; q < m.frames.size() && ok; ++q)
                    ok = seq[sub[a + q]].base == m.frames[q] && !seq[sub[a + q]].modified;
                if (ok)
                    mustDeliver[sub[a + m.frames.size() - 1]].push_back((int) si);
            }
        }
    }
    uint64_t oh = 0;
    for (size_t i = 0; i < seq.size(); ++i)
    {
        std::string where = fmt("position %zu (base frame %d%s)", i, seq[i].base, seq[i].modified ? ", corrupted" : "");
        std::vector<obs::PObs> got;
        const int ep = h.frameEp[seq[i].base];
        if (seq[i].abortAt)
        {
            where += fmt(", allocation %d of the call fails", seq[i].abortAt);
            if (!decodeAborted(w, s.d, seq[i].bytes, seq[i].abortAt, got))
                return;   // the call makes fewer allocations: not a fault sequence
            tainted[ep] = true;
        }
        else if (oracle == 'S')
        {
            got = decodeCopy(w, s.d, seq[i].bytes);
            if (!tainted[ep])
            {
                std::vector<obs::PObs> sg = decodeCopy(w, s.solo[ep], seq[i].bytes);
                if (sg.size() != got.size())
                    w.fail("isolation:delivery-count-differs-from-solo-decoder",
                           where + fmt(": shared decoder returned %zu packet(s), a decoder fed only endpoint %c's frames returned %zu", got.size(), kEp[ep].name, sg.size()));
                else
                    for (size_t q = 0; q < got.size(); ++q)
                    {
                        std::string d = diffObs(got[q], sg[q]);
                        if (!d.empty())
                            w.fail("isolation:delivered-packet-differs-from-solo-decoder:" + d, where + ": shared " + obs::show(got[q]) + " solo " + obs::show(sg[q]));
                    }
            }
        }
        else
            got = step(w, s, seq[i].bytes, false, ep, anyAbort ? 'N' : 'M', where);
        w.add(mc::C_TRANS, 1);
        oh = mc::mix(oh, got.size());
        // (1) integrity: every delivered packet is byte-identical to one sent packet
        std::vector<int> ids;
        for (auto& o : got)
        {
            int id = -1;
            for (size_t si = 0; si < h.sent.size(); ++si)
                if (h.sent[si].payload == o.bytes && h.sent[si].ptype == o.ptype && h.sent[si].ts == o.ts &&
                    (h.sent[si].flags & ~ref::FLAG_SEG_MASK) == (o.flags & ~ref::FLAG_SEG_MASK))
                    id = (int) si;
            if (id < 0)
            {
                // describe: is it a mixture / hole / repeat?
                w.fail("integrity:delivered-packet-is-not-a-sent-packet", where + ": delivered " + obs::show(o) + " matches no sent packet");
            }
            else
            {
                if (o.dev != kEp[h.sent[id].ep].dev || o.stream != kEp[h.sent[id].ep].str)
                    w.fail("integrity:delivered-on-wrong-endpoint", where + ": " + obs::show(o));
                if (o.msgType == ref::MT_DATA && o.ifid != h.sent[id].idword)
                    w.fail("integrity:interface-id-differs", where + ": " + obs::show(o));
            }
            ids.push_back(id);
            oh = mc::mix(oh, (uint64_t) id + 2);
        }
        // (2) recovery
        auto it = mustDeliver.find(i);
        if (it != mustDeliver.end())
            for (int want : it->second)
                if (std::find(ids.begin(), ids.end(), want) == ids.end())
                    w.fail("recovery:complete-uninterrupted-message-not-delivered",
                           where + fmt(": all %zu frame(s) of sent message %d arrived unmodified, in order and uninterrupted on its endpoint, but it was not delivered",
                                       h.sent[want].frames.size(), want));
    }
    w.outcome(oh);
}

static std::vector<Inst> instances(const BaseHist& h)
{
    std::vector<Inst> v;
    for (size_t i = 0; i < h.frames.size(); ++i)
        v.push_back({(int) i, false, h.frames[i]});
    return v;
}

static void replayFault(W& w, const std::string& cs)
{
    auto kv = mc::kv_parse(cs);
    BaseHist h = baseHistory(atoi(kv["base"].c_str()));
    auto seq = instances(h);
    for (auto& f : mc::split(kv["f"], ','))
    {
        size_t at = f.find('@');
        if (at == std::string::npos)
            continue;
        int kind = faultKind(f.substr(0, at));
        if (kind >= 0)
            applyFault(seq, kind, (size_t) atoi(f.c_str() + at + 1));
    }
    judgeFaulted(w, h, seq, kv["oracle"] == "S" ? 'S' : 'M');
}

static void enumFaults(W& w, const BaseHist& h, FaultCase& fc, const std::vector<Inst>& seq, int remaining, int total, char oracle = 'M')
{
    if (remaining == 0)
    {
        auto desc = [&] { return showFault(fc) + (oracle == 'S' ? ";oracle=S" : ""); };
        if (!w.begin_case(desc))
            return;
        judgeFaulted(w, h, seq, oracle);
        w.add(mc::C_TRACES, 1);
        w.add(mc::C_STATES, seq.size());
        return;
    }
    // aborted calls take part in all sequences of up to two faults (also as both of them)
    for (int kind = 0; kind < (total <= 2 ? NFAULT_ALL : NFAULT); ++kind)
        for (size_t pos = 0; pos < seq.size(); ++pos)
        {
            std::vector<Inst> n = seq;
            if (!applyFault(n, kind, pos))
                continue;
            fc.faults.push_back({kind, (int) pos});
            enumFaults(w, h, fc, n, remaining - 1, total, oracle);
            fc.faults.pop_back();
        }
}

// ---------------------------------------------------------------------------------------------
static std::string readCase(const std::string& path)
{
    std::ifstream in(path);
    std::string cs((std::istreambuf_iterator<char>(in)), std::istreambuf_iterator<char>());
    while (!cs.empty() && (cs.back() == '\n' || cs.back() == '\r'))
        cs.pop_back();
    return cs;
}

int main(int argc, char** argv)
{
    mc::Options opt = mc::parse_args(argc, argv, "dec");
    mc::Run run(opt);
    const std::string prop = opt.prop;
    const bool thorough = opt.tier == "thorough";
    run.assumptions = {
        "segment payload sizes are drawn from {0,1,5,6} plus two variants that reassemble to 65535 and 65519/65520 bytes, trailing bytes from {0,3,20,300}, start counters from {0,1,254,32766,32767,65534,65535} (byte carry, sign boundary and wrap of the 16-bit counter)",
        "four endpoints (1,1) (1,0x81) (0,0) (0x0101,1): pairs differ only in the stream id and only in the high byte of the device id; (0,0) are the ids of default-constructed objects",
        "VERIF_SEED is ignored: nothing is sampled",
    };

    if (prop == "C05" || prop == "C18" || prop == "C17")
    {
        const char oracle = prop == "C05" ? 'M' : (prop == "C18" ? 'S' : 'P');
        run.replay_case = [oracle](W& w, const std::string& cs) {
            auto kv = mc::kv_parse(cs);
            if (kv["k"] == "merge")
                replayMerge(w, cs, oracle);
            else if (kv["k"] == "fan")
                fanOut(w, oracle, atoi(kv["n"].c_str()), atoi(kv["o"].c_str()));
            else if (kv["k"] == "fault")
                replayFault(w, cs);
            else if (kv["k"] == "gap")
                longGap(w, oracle, atoi(kv["kind"].c_str()), atoi(kv["n"].c_str()));
            else if (kv["k"] == "big")
                oversize(w, oracle, atoi(kv["v"].c_str()), atoi(kv["ep"].c_str()));
            else
                replaySyms(w, cs, oracle);
        };
        if (!opt.case_file.empty())
            return run.run_single(readCase(opt.case_file));

        {
            auto sizes = fanSizes(thorough);
            run.round(fmt("fan-out: N endpoints with a message in progress at once, N from %zu sizes up to %d (around every power of two) x 3 completion orders", sizes.size(), sizes.back()),
                      sizes.size() * 3, [&, sizes](W& w, uint64_t o) {
                          int n = sizes[o / 3], order = (int) (o % 3);
                          auto desc = [&] { return fmt("k=fan;n=%d;o=%d", n, order); };
                          if (!w.begin_case(desc))
                              return;
                          fanOut(w, oracle, n, order);
                      });
        }
        {
            auto gaps = gapSizes(thorough);
            run.round(fmt("long gaps: a 3-segment message with N frames of other traffic between its segments, N from %zu sizes up to %d x 5 kinds of filler traffic", gaps.size(), gaps.back()),
                      gaps.size() * 5, [&, gaps](W& w, uint64_t o) {
                          int n = gaps[o / 5], kind = (int) (o % 5);
                          if (!thorough && n > 10000 && (kind > 2 || (kind > 0 && n != 65536)))
                              return;
                          auto desc = [&] { return fmt("k=gap;n=%d;kind=%d", n, kind); };
                          if (!w.begin_case(desc))
                              return;
                          longGap(w, oracle, kind, n);
                      });
        }
        if (prop == "C18")
        {
            // a decode call of one endpoint's frame that ends in an exception (memory exhaustion at any allocation) must not change
            // what the OTHER endpoints get: two-endpoint base histories of C06, one aborted call (with / without retry) alone and
            // together with one more fault of any kind, the endpoints without aborted call compared with their solo decoders
            struct T { int base, kind, pos; };
            std::vector<T> ts;
            std::vector<BaseHist> bases;
            for (int b = 0; b < 7; ++b)
                bases.push_back(baseHistory(b));
            for (int b : {2, 5, 6})
                for (int k = NFAULT; k < NFAULT_ALL; ++k)
                    for (size_t p = 0; p < bases[b].frames.size(); ++p)
                        ts.push_back({b, k, (int) p});
            run.round("two-endpoint histories with a decode call aborted at its n-th allocation (every n, every frame, with / without retry), alone and with one more fault: other endpoints vs their solo decoders",
                      ts.size(), [&, ts, bases](W& w, uint64_t o) {
                          const T& t = ts[o];
                          const BaseHist& h = bases[t.base];
                          FaultCase fc;
                          fc.base = t.base;
                          auto seq = instances(h);
                          if (!applyFault(seq, t.kind, (size_t) t.pos))
                              return;
                          fc.faults.push_back({t.kind, t.pos});
                          enumFaults(w, h, fc, seq, 0, 1, 'S');
                          if (t.base != 6)
                              enumFaults(w, h, fc, seq, 1, 2, 'S');
                      });
        }
        if (prop == "C17" || prop == "C18")
        {
            const size_t nv = oversizeVariants().size();
            run.round(fmt("messages whose segments add up to more than 65535 bytes: %zu size lists x 4 endpoints", nv), nv * NEP, [&](W& w, uint64_t o) {
                int v = (int) (o / NEP), epi = (int) (o % NEP);
                auto desc = [&] { return fmt("k=big;v=%d;ep=%d", v, epi); };
                if (!w.begin_case(desc))
                    return;
                oversize(w, oracle, v, epi);
            });
        }
        if (prop == "C05" || prop == "C18")
        {
            auto tasks = mergeTasks(thorough);
            std::vector<MergeTask> two, three;
            for (auto& t : tasks)
                (t.eps.size() == 2 ? two : three).push_back(t);
            run.round("all interleavings of 2 endpoint streams: 4 endpoint pairs x 7x7 templates x 8x8 variants (+ largest-message variants)", two.size(),
                      [&](W& w, uint64_t o) { runMergeTask(w, two[o], oracle); });
            run.round(fmt("all interleavings of 3 endpoint streams with <= %d frames in total x 8 variant triples", thorough ? 12 : 9), three.size(),
                      [&](W& w, uint64_t o) { runMergeTask(w, three[o], oracle); });
        }
        if (prop == "C17" || prop == "C18")
        {
            const int treeDepth = thorough ? 4 : 3;
            for (int d = 1; d <= treeDepth; ++d)
            {
                const int plen = std::min(2, d - 1);
                uint64_t nout = plen == 0 ? 1 : (plen == 1 ? NSYM : (uint64_t) NSYM * NSYM);
                run.round(fmt("unmerged tree over the %d-symbol state-relative alphabet, all histories of depth %d", NSYM, d), nout, [&, d, plen](W& w, uint64_t o) {
                    Sys s;
                    std::vector<int> path;
                    if (plen == 2)
                        path = {(int) (o / NSYM), (int) (o % NSYM)};
                    else if (plen == 1)
                        path = {(int) o};
                    W silent;
                    silent.single = true;
                    for (int k : path)
                        symStep(silent, s, k, oracle, "");
                    dfsSym(w, s, path, d, oracle, fullAlphabet());
                });
                if (run.out_of_time())
                    break;
            }
            {
                const std::vector<int> sharp = sharpAlphabet();
                const int ns = (int) sharp.size();
                const int deep = thorough ? 6 : 5;
                for (int d = treeDepth + 1; d <= deep; ++d)
                {
                    run.round(fmt("unmerged tree over the sharp %d-symbol sub-alphabet, all histories of depth %d", ns, d), (uint64_t) ns * ns, [&, d, ns](W& w, uint64_t o) {
                        Sys s;
                        std::vector<int> path = {sharp[o / ns], sharp[o % ns]};
                        W silent;
                        silent.single = true;
                        for (int k : path)
                            symStep(silent, s, k, oracle, "");
                        dfsSym(w, s, path, d, oracle, sharp);
                    });
                    if (run.out_of_time())
                        break;
                }
            }
            runBfs(run, thorough ? 10 : 8, oracle);   // (was 11 / 9 with the 80-symbol alphabet; the alphabet has 103 symbols now)
        }
        if (prop == "C05")
            run.rule = "every interleaving (merge) of the frame streams of 2 and 3 endpoints, each stream one of 7 templates over {F,I,L,U} x 8 variants "
                       "(segment sizes, start counter incl. wrap, trailing bytes, version, typed/generic), explored as a DFS that copies the real Decoder at "
                       "each branch; every prefix judged against the stream's own expectation and in lock-step with the reassembly model; "
                       "distinct = distinct (decoder+model state, delivery) outcomes";
        else if (prop == "C18")
            run.rule = "on every path of the C05 interleaving exploration and of the C17 symbol tree/BFS the shared real Decoder is compared, frame by "
                       "frame, with a solo real Decoder per endpoint that is fed only that endpoint's frames; distinct = distinct (state, delivery) outcomes";
        else
            run.rule = "state-relative alphabet (per endpoint: U, UU, F, F+trailing@65535, F v2/status@32767, I/L correct, I/L counter+2, L wrong "
                       "version, L wrong type, I+trailing, payload-type 0, error flag, overrunning length, header-only, [U][F], [U][I], [U][L], partial header, header + 1 byte, truncated TECMP-like buffer carrying the endpoint's ids; plus "
                       "5-byte buffer, nullptr, TECMP frame): unmerged tree of copied real Decoders + BFS merged on (model state, verifPending dump); "
                       "invariant after every transition; distinct = distinct merged states";
        return run.finish();
    }

    if (prop == "C06")
    {
        run.level = "fault_enumeration";
        run.replay_case = [](W& w, const std::string& cs) { replayFault(w, cs); };
        if (!opt.case_file.empty())
            return run.run_single(readCase(opt.case_file));
        const int maxFaults = thorough ? 3 : 2;
        std::vector<BaseHist> bases;
        const int NBASE = 7;   // base 6 (the long one, 215 frames) takes part with at most one fault
        for (int b = 0; b < NBASE; ++b)
            bases.push_back(baseHistory(b));
        for (int nf = 0; nf <= maxFaults; ++nf)
        {
            // outer: (base, first fault kind, first fault position)
            struct T { int base, kind, pos; };
            std::vector<T> ts;
            for (int b = 0; b < NBASE; ++b)
            {
                if (b == 6 && nf > 1)
                    continue;
                if (nf == 0)
                {
                    ts.push_back({b, -1, 0});
                    continue;
                }
                for (int k = 0; k < (nf <= 2 ? NFAULT_ALL : NFAULT); ++k)
                    for (size_t p = 0; p < bases[b].frames.size(); ++p)
                        ts.push_back({b, k, (int) p});
            }
            run.round(fmt("all fault sequences with exactly %d fault(s) on 6 base histories (+ a 215-frame history with <= 1 fault)%s", nf, nf && nf <= 2 ? " (incl. decode calls aborted at every allocation, with and without retry)" : ""), ts.size(), [&, nf, ts](W& w, uint64_t o) {
                const T& t = ts[o];
                const BaseHist& h = bases[t.base];
                FaultCase fc;
                fc.base = t.base;
                auto seq = instances(h);
                if (nf == 0)
                {
                    enumFaults(w, h, fc, seq, 0, 0);
                    return;
                }
                if (!applyFault(seq, t.kind, (size_t) t.pos))
                    return;
                fc.faults.push_back({t.kind, t.pos});
                enumFaults(w, h, fc, seq, nf - 1, nf);
            });
            if (run.out_of_time())
                break;
        }
        if (thorough && !run.out_of_time())
        {
            // one more fault on the hand-built stream that crosses the counter wrap
            const BaseHist& h = bases[3];
            struct T2 { int k1, p1, k2, p2; };
            std::vector<T2> ts;
            for (int k1 = 0; k1 < NFAULT; ++k1)
                for (size_t p1 = 0; p1 < h.frames.size(); ++p1)
                    for (int k2 = 0; k2 < NFAULT; ++k2)
                        for (size_t p2 = 0; p2 < h.frames.size() + 1; ++p2)
                            ts.push_back({k1, (int) p1, k2, (int) p2});
            run.round("all fault sequences with exactly 4 faults on the base history that crosses the counter wrap", ts.size(), [&, ts](W& w, uint64_t o) {
                const T2& t = ts[o];
                FaultCase fc;
                fc.base = 3;
                auto seq = instances(h);
                if (!applyFault(seq, t.k1, (size_t) t.p1))
                    return;
                fc.faults.push_back({t.k1, t.p1});
                if (!applyFault(seq, t.k2, (size_t) t.p2))
                    return;
                fc.faults.push_back({t.k2, t.p2});
                enumFaults(w, h, fc, seq, 2, 4);
            });
        }
        run.extra.push_back({"max_faults", mc::Json::num((uint64_t) maxFaults)});
        run.rule = "6 base histories (real encoder output for [small,small,3-seg,small,2-seg,4-seg,small] at (0,40) and (64,100), the same for two "
                   "endpoints - one of them (0,0), the ids of a default encoder - interleaved round-robin, a hand-built stream crossing the 65535->0 wrap, the same crossing 32767->32768, two endpoints differing in the high "
                   "byte of the device id only of which one sends zero-padded frames) x ALL sequences of <= k faults from "
                   "{drop, duplicate-after, duplicate-two-later, swap, corrupt-version, corrupt-type} at every position; distinct = distinct delivery "
                   "patterns (which sent packet is delivered at which position)";
        return run.finish();
    }

    fprintf(stderr, "engine dec does not serve %s\n", prop.c_str());
    return 2;
}
